"""Independent reference generator: the generation algorithm of README "Stochastic object syntax" /
the property statements, written on the AST (notation.py) only, enumerating its own exact law.

exact_law(ast, targets) -> {canonical SMILES: probability}   (targets: one forced target mass per stochastic object)

Used by C08's enumeration runs: the real code is driven through *every* choice sequence by a scripted
scheduler (depth-first over the decision tree, kept and discarded work alike); the path probabilities it
was handed, summed per product, must equal this law.  Nothing here looks at the event seams.
"""
from rdkit import Chem

from .notation import Desc, Stoch, Tok, compatible, weights_rule


class Stuck(Exception):
    pass


class _State:
    __slots__ = ("insts", "bonds", "open", "mass")

    def __init__(self):
        self.insts = []  # Tok per instance
        self.bonds = []  # (inst_a, desc_a, inst_b, desc_b)
        self.open = []  # (inst, desc ordinal, eff Desc)
        self.mass = 0.0

    def copy(self):
        s = _State()
        s.insts = list(self.insts)
        s.bonds = list(self.bonds)
        s.open = list(self.open)
        s.mass = self.mass
        return s


def _attach(state, open_idx, tok, k):
    s = state.copy()
    oi, od, _ = s.open[open_idx]
    new = len(s.insts)
    s.insts.append(tok)
    s.bonds.append((oi, od, new, k))
    del s.open[open_idx]
    for j, d in enumerate(tok.descs):
        if j != k:
            s.open.append((new, j, d))
    s.mass += tok.mass
    return s


def _new(state, tok):
    s = state.copy()
    new = len(s.insts)
    s.insts.append(tok)
    for j, d in enumerate(tok.descs):
        s.open.append((new, j, d))
    s.mass += tok.mass
    return s


def _pick(options, weights):
    """[(option, probability)] with probability > 0, by the equal-weights rule"""
    ps = weights_rule(weights)
    return [(o, p) for o, p in zip(options, ps) if p > 0]


def _finalise(st, stoch):
    """yield (state, prob) after reserving the terminal descriptor and capping everything else"""
    starts = []
    if stoch.right.sym != "":
        inv = Desc(sym=stoch.right.sym, did=stoch.right.did, order=stoch.right.order)
        cand = [i for i, (_, _, d) in enumerate(st.open) if compatible(inv, d)]
        if not cand:
            raise Stuck("no descriptor for the right terminal")
        for i, p in _pick(cand, [st.open[i][2].weight for i in cand]):
            s = st.copy()
            reserved = s.open.pop(i)
            starts.append((s, reserved, p))
    else:
        starts.append((st.copy(), None, 1.0))
    for s0, reserved, p0 in starts:
        stack = [(s0, p0)]
        while stack:
            s, p = stack.pop()
            if not s.open:
                if reserved is not None:
                    s.open.append(reserved)
                yield s, p
                continue
            for oi, po in _pick(list(range(len(s.open))), [o[2].weight for o in s.open]):
                d = s.open[oi][2]
                cand = [(t, k) for (t, k) in stoch.ebonds() if compatible(d, t.descs[k])]
                if not cand:
                    raise Stuck("no end group for an open descriptor")
                for (t, k), pe in _pick(cand, [t.descs[k].weight for t, k in cand]):
                    stack.append((_attach(s, oi, t, k), p * po * pe))


def _grow(st, stoch, target, a0, first):
    """yield (state, prob) for one stochastic object starting from state st (growth + final finalisation)"""
    for oi, po in _pick(list(range(len(st.open))), [o[2].weight for o in st.open]):
        d = st.open[oi][2]
        if d.trans is not None:
            alld = stoch.all_descs()
            if len(d.trans) != len(alld) or sum(d.trans) <= 0:
                raise Stuck("bad transition list")
            cand = [(tk, w / sum(d.trans)) for tk, w in zip(alld, d.trans) if w > 0]
            for (t, k), _ in cand:
                if not compatible(d, t.descs[k]):
                    raise Stuck("list weight on an incompatible descriptor")
        else:
            opts = [(t, k) for (t, k) in stoch.rbonds() if compatible(d, t.descs[k])]
            if not opts:
                raise Stuck("no repeat unit for an open descriptor")
            cand = _pick(opts, [t.descs[k].weight for t, k in opts])
        for (t, k), pp in cand:
            s = _attach(st, oi, t, k)
            p = po * pp
            if not s.open:
                yield s, p  # premature end: nothing open
            elif s.mass - a0 > target:
                for s2, p2 in _finalise(s, stoch):
                    yield s2, p * p2
            else:
                for s2, p2 in _grow(s, stoch, target, a0, False):
                    yield s2, p * p2


def _elements(ast, targets):
    stoch_i = 0
    states = [(_State(), 1.0)]
    for ei, e in enumerate(ast.elements):
        nxt = []
        if isinstance(e, Tok):
            for st, p in states:
                if not st.insts:
                    nxt.append((_new(st, e), p))
                    continue
                if len(st.open) != 1:
                    raise Stuck("hand-over needs exactly one open descriptor")
                d = st.open[0][2]
                opts = [k for k in range(len(e.descs)) if compatible(d, e.descs[k])]
                if not opts:
                    raise Stuck("token has no compatible descriptor")
                for k, pk in _pick(opts, [e.descs[k].weight for k in opts]):
                    nxt.append((_attach(st, 0, e, k), p * pk))
        else:
            target = targets[stoch_i]
            stoch_i += 1
            for st, p in states:
                if e.left.sym == "":
                    if st.insts:
                        raise Stuck("closed left terminal after a prefix")
                    eb = e.ebonds()
                    if not eb:
                        raise Stuck("no end group to start from")
                    starts = [(_new(st, t), p * pe) for (t, k), pe in _pick(eb, [t.descs[k].weight for t, k in eb])]
                else:
                    if len(st.open) != 1:
                        raise Stuck("prefix must carry exactly one descriptor")
                    oi, od, d = st.open[0]
                    if (d.sym, d.did, d.order) != (e.left.sym, e.left.did, e.left.order):
                        raise Stuck("prefix descriptor differs from the left terminal")
                    s = st.copy()
                    s.open[0] = (oi, od, Desc(sym=d.sym, did=d.did, order=d.order, weight=e.left.weight, trans=e.left.trans))
                    starts = [(s, p)]
                for s, ps in starts:
                    a0 = s.mass
                    for s2, p2 in _grow(s, e, target, a0, True):
                        nxt.append((s2, ps * p2))
        states = nxt
    return states


def to_smiles(state):
    mol = None
    offsets = []
    off = 0
    for t in state.insts:
        frag = Chem.Mol(t.frag)
        mol = frag if mol is None else Chem.CombineMols(mol, frag)
        offsets.append(off)
        off += t.natoms
    em = Chem.RWMol(mol)
    order = {1: Chem.BondType.SINGLE, 2: Chem.BondType.DOUBLE, 3: Chem.BondType.TRIPLE}
    for (a, ka, b, kb) in state.bonds:
        ta, tb = state.insts[a], state.insts[b]
        em.AddBond(offsets[a] + ta.sites[ka], offsets[b] + tb.sites[kb], order[ta.descs[ka].order])
    m = em.GetMol()
    Chem.SanitizeMol(m)
    return flat_smiles(m)


def flat_smiles(m):
    """canonical SMILES without stereo marks (isotopes, charges kept).  The library cannot keep the stereo mark of an
    attachment atom (RDKit drops the tag of a fragment atom with fewer than three neighbours) and no claimed property
    speaks of stereochemistry, so products are compared as constitutions."""
    m = Chem.Mol(m)
    Chem.RemoveStereochemistry(m)
    return Chem.MolToSmiles(m)


def exact_law(ast, targets, max_states=20000):
    law = {}
    n = 0
    for st, p in _elements(ast, targets):
        n += 1
        if n > max_states:
            raise OverflowError("too many outcomes")
        key = to_smiles(st) + ("" if not st.open else "  (open:%d)" % len(st.open))
        law[key] = law.get(key, 0.0) + p
    return law
