"""gbsim: deterministic simulation with fault injection for G-BigSMILES.

See /verif/DESIGN.md.  Everything here drives the *real* library code from the
working tree of $GBSIM_REPO (default /repo) under a seeded scheduler that owns
every random decision, plus harness-side seams that record attach / draw /
file events.
"""
