"""Harness-side seams (no repository edits): wrappers installed once per process
on public names of the library, dispatching to the current World.

S2 MolGen.attach_other, S3 MolGen.__init__ (+ __deepcopy__ for lineage),
S4 Distribution.draw_mw (+ evaluation counters on the custom laws),
S8 forcefield_helper.open, S10 mol_gen.AllChem shim.
With no current World every wrapper is a pass-through.
"""
import copy
import hashlib
import json

from . import boot
from .boot import HarnessError
from .simrng import BudgetExceeded, SimAbort

_W = None  # current world
_INSTALLED = False
_ORIG = {}


class DrawDiverges(SimAbort):
    """A draw exceeded the evaluation budget of the family's own mass/density function."""


class World:
    """One simulated execution: scheduler + event log + shadow state."""

    def __init__(self, sched, embed="stub", embed_seed=7, embed_fault_at=None, pmf_limit=2500, simfs=None):
        self.sched = sched
        sched.listener = self._sched_event
        self.log = []
        self.hooks = []  # callables(ev, live)
        self.next_uid = 0
        self.next_obj = 0
        self.token_map = {}  # id(token object) -> key given by the workload
        self.token_keep = []  # keep token objects alive so ids stay unique
        self.in_draw = 0
        self.draw_ctx_fn = None  # callable(distribution object) -> ctx dict for the scheduler
        self.forced_draws = None  # list of values handed out by draw_mw instead of calling the family
        self.forced_pos = 0
        self.embed = embed
        self.embed_seed = embed_seed
        self.embed_fault_at = embed_fault_at
        self.embed_calls = 0
        self.pmf_evals = 0
        self.pmf_limit = pmf_limit
        self.pmf_max_array = 3_000_000
        self.simfs = simfs
        self.counters = {}
        self.attach_count = 0
        self.attach_limit = 3000
        self.draw_count = 0
        self.draw_limit = 300  # target draws per world (a loop that keeps redrawing must not hang the run)

    # events ---------------------------------------------------------------
    def event(self, ev, live=None):
        ev["s"] = len(self.log)
        self.log.append(ev)
        for h in self.hooks:
            h(ev, live)
        return ev

    def _sched_event(self, ev):
        if self.in_draw:
            ev["in_draw"] = True
        self.event(ev)

    def count(self, key, n=1):
        self.counters[key] = self.counters.get(key, 0) + n

    def digest(self):
        blob = json.dumps(self.log, sort_keys=True, separators=(",", ":"), default=_json_default)
        return hashlib.sha256(blob.encode()).hexdigest()

    def register_tokens(self, tokens, keys):
        for t, k in zip(tokens, keys):
            self.token_map[id(t)] = k
            self.token_keep.append(t)

    def __enter__(self):
        global _W
        install()
        if _W is not None:
            raise HarnessError("nested worlds")
        _W = self
        _reset_process_state()
        # the library's module-level generator (default argument of every generate) is process-wide state: give it a
        # state derived from the run so that code which (wrongly) falls back on it still replays, and so that its use
        # can be detected
        self._grng = None
        try:
            import numpy as np

            g = boot.load()
            grng = getattr(g.core, "_GLOBAL_RNG", None)
            if grng is not None:
                self._grng = grng
                self._grng_saved = grng.bit_generator.state
                grng.bit_generator.state = np.random.PCG64(int(self.sched.seed) % (1 << 63)).state
                self._grng_start = repr(grng.bit_generator.state)
        except Exception:
            self._grng = None
        # the two ambient process-wide generators (numpy's legacy global state, Python's `random` module) get a state derived
        # from the run as well: library code that falls back on them replays, and their use can be detected
        import random as _random

        import numpy as _np

        self._amb_saved = (_np.random.get_state(), _random.getstate())
        _np.random.seed(int(self.sched.seed) % (1 << 32))
        _random.seed(int(self.sched.seed))
        self._amb_start = self._ambient_state()
        return self

    @staticmethod
    def _ambient_state():
        import hashlib
        import random as _random

        import numpy as _np

        st = _np.random.get_state()
        return hashlib.sha1(st[1].tobytes() + repr(st[2:]).encode() + repr(_random.getstate()).encode()).hexdigest()

    def ambient_rng_used(self):
        return self._ambient_state() != self._amb_start

    def global_rng_used(self):
        return self._grng is not None and repr(self._grng.bit_generator.state) != self._grng_start

    def global_rng_mark(self):
        if self._grng is not None:
            self._grng_start = repr(self._grng.bit_generator.state)
        self._amb_start = self._ambient_state()

    def __exit__(self, *exc):
        global _W
        _W = None
        try:
            import random as _random

            import numpy as _np

            _np.random.set_state(self._amb_saved[0])
            _random.setstate(self._amb_saved[1])
        except Exception:
            pass
        if self._grng is not None:
            try:
                self._grng.bit_generator.state = self._grng_saved
            except Exception:
                pass
        return False


def _json_default(o):
    try:
        import numpy as np

        if isinstance(o, np.generic):
            return o.item()
        if isinstance(o, np.ndarray):
            return o.tolist()
    except Exception:
        pass
    return repr(o)


def current():
    return _W


def _reset_process_state():
    """State that outlives a call inside one process is reset at the start of a run,
    so that a run's log does not depend on the runs the worker executed before."""
    g = boot.load()
    ff = g.forcefield_helper
    for name in ("_global_nonbonded_itp_file", "_global_smarts_rule_file", "_global_assignment_class"):
        if hasattr(ff, name):
            setattr(ff, name, None)
    # class attribute shared by all notation objects
    if isinstance(getattr(g.core.BigSMILESbase, "bond_descriptors", None), list):
        del g.core.BigSMILESbase.bond_descriptors[:]


# ---------------------------------------------------------------------------
def _heavy_mass(mg):
    """heavy-atom mass of the molecule built so far, measured on the RDKit molecule itself (not through the MolGen.weight
    accessor, which is one of the things under test: C05 mass_accessor)"""
    try:
        from rdkit.Chem import Descriptors

        return float(Descriptors.HeavyAtomMolWt(mg._mol))
    except Exception:
        return float(mg.weight)


def desc_view(bd):
    """JSON-able view of a live BondDescriptor."""
    tr = getattr(bd, "transitions", None)
    return {
        "tag": list(getattr(bd, "_gb_tag", (-1, -1))),
        "sym": bd.descriptor,
        "id": bd.descriptor_id,
        "bt": str(bd.bond_type),
        "w": float(bd.weight),
        "tr": None if tr is None else [float(x) for x in tr],
        "atom": getattr(bd, "atom_bonding_to", None),
        "node": getattr(bd, "node_idx", None),
    }


def _natoms(mg):
    m = getattr(mg, "_mol", None)
    if m is None:
        m = mg.mol
    return m.GetNumAtoms(), m.GetNumBonds()


def install():
    global _INSTALLED
    if _INSTALLED:
        return
    g = boot.load()
    mol_gen = g.mol_gen
    MolGen = mol_gen.MolGen
    for need in ("__init__", "attach_other"):
        if need not in MolGen.__dict__:
            raise HarnessError(f"seam MolGen.{need} missing")

    # S3 -------------------------------------------------------------------
    orig_init = MolGen.__init__
    _ORIG["MolGen.__init__"] = orig_init

    def init_wrapper(self, token, *a, **k):
        orig_init(self, token, *a, **k)
        w = _W
        if w is None:
            return
        uid = w.next_uid
        w.next_uid += 1
        obj = w.next_obj
        w.next_obj += 1
        self._gb_obj = obj
        na, nb = _natoms(self)
        self._gb_inst = [(uid, 0, na)]
        for kk, bd in enumerate(self.bond_descriptors):
            bd._gb_tag = (uid, kk)
        try:
            self.graph.nodes[0]["gb_uid"] = uid
        except Exception:
            pass
        key = w.token_map.get(id(token))
        w.event(
            {"k": "new", "uid": uid, "obj": obj, "tok": key, "text": str(token), "res": getattr(token, "res_id", None),
             "na": na, "nb": nb},
            {"mg": self, "token": token},
        )

    MolGen.__init__ = init_wrapper

    # lineage ----------------------------------------------------------------
    def deepcopy_wrapper(self, memo):
        cls = self.__class__
        new = cls.__new__(cls)
        memo[id(self)] = new
        for kk, vv in self.__dict__.items():
            setattr(new, kk, copy.deepcopy(vv, memo))
        w = _W
        if w is not None and hasattr(self, "_gb_obj"):
            new._gb_obj = w.next_obj
            w.next_obj += 1
            w.event({"k": "copy", "src": self._gb_obj, "dst": new._gb_obj}, {"src": self, "dst": new})
        return new

    if "__deepcopy__" not in MolGen.__dict__:
        MolGen.__deepcopy__ = deepcopy_wrapper

    # S2 -------------------------------------------------------------------
    orig_attach = MolGen.attach_other
    _ORIG["MolGen.attach_other"] = orig_attach

    def attach_wrapper(self, self_bond_idx, other, other_bond_idx, *a, **k):
        w = _W
        if w is None or not hasattr(self, "_gb_obj") or not hasattr(other, "_gb_obj"):
            return orig_attach(self, self_bond_idx, other, other_bond_idx, *a, **k)
        w.attach_count += 1
        if w.attach_count > w.attach_limit:
            raise BudgetExceeded(f"more than {w.attach_limit} attach steps in one run")
        pre_self = [desc_view(b) for b in self.bond_descriptors]
        pre_other = [desc_view(b) for b in other.bond_descriptors]
        na_s, nb_s = _natoms(self)
        na_o, nb_o = _natoms(other)
        inst_s = list(self._gb_inst)
        inst_o = list(other._gb_inst)
        w_pre = _heavy_mass(self)
        ev = {
            "k": "att", "obj": self._gb_obj, "oobj": other._gb_obj, "si": int(self_bond_idx), "oi": int(other_bond_idx),
            "pre_self": pre_self, "pre_other": pre_other, "na": [na_s, na_o], "nb": [nb_s, nb_o], "w_pre": w_pre,
            "inst_self": [list(x) for x in inst_s], "inst_other": [list(x) for x in inst_o],
        }
        try:
            res = orig_attach(self, self_bond_idx, other, other_bond_idx, *a, **k)
        except SimAbort:
            raise
        except BaseException as exc:
            ev["k"] = "att_fail"
            ev["exc"] = type(exc).__name__
            w.event(ev, {"self": self, "other": other})
            raise
        # the fragment that was attached is an object of its own: what it holds afterwards (ignoring the bookkeeping tags)
        try:
            ev["post_other"] = [desc_view(b) for b in other.bond_descriptors] if other is not res else None
        except Exception:
            ev["post_other"] = None
        res._gb_inst = inst_s + [(u, off + na_s, n) for (u, off, n) in inst_o]
        if not hasattr(res, "_gb_obj"):
            res._gb_obj = self._gb_obj
        na_r, nb_r = _natoms(res)
        ev["robj"] = res._gb_obj
        ev["post"] = [desc_view(b) for b in res.bond_descriptors]
        ev["na_post"] = na_r
        ev["nb_post"] = nb_r
        ev["w_post"] = _heavy_mass(res)
        w.event(ev, {"self": self, "other": other, "res": res})
        return res

    MolGen.attach_other = attach_wrapper

    # S4 -------------------------------------------------------------------
    dist = g.distribution

    def make_draw_wrapper(cls, orig):
        def draw_wrapper(self, rng=None, *a, **k):
            w = _W
            if w is None:
                return orig(self, rng, *a, **k)
            if w.in_draw == 0:
                w.draw_count += 1
                if w.draw_count > w.draw_limit:
                    raise BudgetExceeded(f"more than {w.draw_limit} target draws in one run")
            if w.forced_draws is not None and w.in_draw == 0:
                if w.forced_pos < len(w.forced_draws):
                    v = w.forced_draws[w.forced_pos]
                else:
                    v = w.forced_draws[-1]
                w.forced_pos += 1
                w.event({"k": "draw", "text": str(self), "v": float(v), "forced": True, "did": id(self) if False else None},
                        {"dist": self})
                return v
            w.in_draw += 1
            w.pmf_evals = 0
            if w.draw_ctx_fn is not None and w.in_draw == 1:
                w.sched.draw_ctx = w.draw_ctx_fn(self)
            try:
                v = orig(self, rng, *a, **k)
            except DrawDiverges as exc:
                if w.in_draw == 1:
                    w.event({"k": "draw_fail", "text": str(self), "exc": "DrawDiverges", "msg": str(exc)[:200]}, {"dist": self})
                raise
            except SimAbort:
                raise
            except BaseException as exc:
                if w.in_draw == 1:
                    w.event({"k": "draw_fail", "text": str(self), "exc": type(exc).__name__, "msg": str(exc)[:200]},
                            {"dist": self})
                raise
            finally:
                w.in_draw -= 1
                if w.in_draw == 0:
                    w.sched.draw_ctx = None
            if w.in_draw == 0:
                try:
                    fv = float(v)
                except Exception:
                    fv = None
                w.event({"k": "draw", "text": str(self), "v": fv, "forced": False, "evals": w.pmf_evals}, {"dist": self, "raw": v})
            return v

        draw_wrapper._gb_orig = orig
        return draw_wrapper

    base = dist.Distribution
    if "draw_mw" not in base.__dict__:
        raise HarnessError("seam Distribution.draw_mw missing")
    seen = set()
    for name in dir(dist):
        cls = getattr(dist, name)
        if isinstance(cls, type) and issubclass(cls, base) and cls not in seen:
            seen.add(cls)
            if "draw_mw" in cls.__dict__:
                cls.draw_mw = make_draw_wrapper(cls, cls.__dict__["draw_mw"])

    # evaluation counters on the custom laws (liveness of a draw, decided without a clock)
    def make_counter(orig, fn_name):
        import functools

        import numpy as np

        limit_scale = 1 if fn_name == "_pmf" else 100

        @functools.wraps(orig)  # scipy infers the shape parameters from the signature
        def counted(self, *a, **k):
            w = _W
            if w is not None and w.in_draw:
                w.pmf_evals += 1
                if w.pmf_evals > w.pmf_limit * limit_scale:
                    raise DrawDiverges(f"more than {w.pmf_limit * limit_scale} evaluations of {fn_name} in one draw")
                if a and np.size(a[0]) > w.pmf_max_array:
                    # scipy's search keeps doubling its bracket: stop before it exhausts memory
                    raise DrawDiverges(f"{fn_name} evaluated on {np.size(a[0])} points: the quantile search does not converge")
            return orig(self, *a, **k)

        return counted

    for cls in list(seen):
        for inner_name, inner in list(cls.__dict__.items()):
            if isinstance(inner, type):
                for fn in ("_pmf", "_pdf", "_cdf", "_ppf"):
                    if fn in inner.__dict__:
                        setattr(inner, fn, make_counter(inner.__dict__[fn], fn))

    # S10 ------------------------------------------------------------------
    real_allchem = mol_gen.AllChem
    from rdkit import Chem
    from rdkit.Geometry import Point3D  # noqa

    class AllChemShim:
        def __getattr__(self, name):
            return getattr(real_allchem, name)

        def EmbedMolecule(self, mol, *a, **k):
            w = _W
            if w is None:
                return real_allchem.EmbedMolecule(mol, *a, **k)
            idx = w.embed_calls
            w.embed_calls += 1
            if w.embed_fault_at is not None and idx == w.embed_fault_at:
                w.event({"k": "fault", "kind": "embed_fail", "at": idx})
                return -1
            if w.embed == "real":
                return real_allchem.EmbedMolecule(mol, randomSeed=(w.embed_seed + idx) % 2147483647 + 1)
            conf = Chem.Conformer(mol.GetNumAtoms())
            mol.AddConformer(conf, assignId=True)
            return 0

        def UFFOptimizeMolecule(self, mol, *a, **k):
            w = _W
            if w is None:
                return real_allchem.UFFOptimizeMolecule(mol, *a, **k)
            if w.embed == "real":
                if mol.GetNumConformers() == 0:
                    return -1
                # coordinates are in no property: bound the optimiser (C code cannot be interrupted by the watchdog)
                return real_allchem.UFFOptimizeMolecule(mol, maxIters=50)
            return 0

    mol_gen.AllChem = AllChemShim()

    # S8 ------------------------------------------------------------------
    ff = g.forcefield_helper
    import builtins

    def sim_open(filename, *a, **k):
        w = _W
        if w is None or w.simfs is None:
            return builtins.open(filename, *a, **k)
        return w.simfs.open(filename, *a, **k)

    ff.open = sim_open

    _INSTALLED = True
