"""Inputs related to a given input, for histories in which state keyed by *part* of a string collides between two objects:

 retune(rnd, text)   the same tokens with other scalar weights / other distribution parameters / another family
 respell(rnd, text)  the same molecule with every token's SMILES written in another atom order (RDKit random SMILES of the
                     token with its descriptors as mapped dummy atoms, descriptors put back): same canonical fragments,
                     same residue numbering, other atom indices

Both return None when they cannot produce a valid different text.  Nothing here calls gbigsmiles.
"""
import re

from rdkit import Chem

from . import reader


def retune(rnd, text):
    mode = rnd.choice(["weights", "params", "family", "weights+params"])
    out = text
    if "weights" in mode:
        def rw(m):
            return "|" + rnd.choice(["2", "5", "0.5", "7", "1"]) + "|]"

        out2 = re.sub(r"\|\s*[0-9.]+(?:e[+-]?[0-9]+)?\s*\|\]", rw, out)
        if out2 == out:
            # no scalar weight written: give the first descriptor of the first repeat unit one (terminals stay as they are)
            m = re.search(r"\{\[[<>$]?[0-9]*\]\s*[^\[{};,]*\[([<>$][0-9]*)\]", out)
            if m:
                out2 = out[: m.end(1)] + "|3|" + out[m.end(1):]
        out = out2
    if "params" in mode:
        def rp(m):
            fam = m.group(1)
            try:
                nums = [float(x) for x in m.group(2).split(",")]
            except ValueError:
                return m.group(0)
            if fam == "flory_schulz":
                nums = [min(0.9, nums[0] * 0.7)]
            elif fam == "uniform":
                nums = [int(nums[0] * 1.5) + 1, int(nums[1] * 1.5) + 3]
            elif fam == "log_normal":
                nums = [nums[0] * 1.5, nums[1]]
            elif fam == "gauss":
                nums = [nums[0] * 1.5, nums[1] * 0.5]
            else:
                nums = [x * 1.5 for x in nums]
            return "|%s(%s)|" % (fam, ", ".join(repr(x) for x in nums))

        out = re.sub(r"\|([a-z_]+)\(([^)]*)\)\|", rp, out)
    if mode == "family":
        def rf(m):
            fam = m.group(1)
            try:
                nums = [float(x) for x in m.group(2).split(",")]
            except ValueError:
                return m.group(0)
            mean = {"flory_schulz": lambda: 2.0 / max(nums[0], 1e-3), "uniform": lambda: (nums[0] + nums[1]) / 2,
                    "schulz_zimm": lambda: nums[1]}.get(fam, lambda: nums[0])()
            mean = max(5.0, min(mean, 3000.0))
            new = rnd.choice([f for f in ("gauss", "poisson", "uniform", "log_normal") if f != fam])
            if new == "gauss":
                return "|gauss(%r, %r)|" % (mean, round(mean * 0.2, 3))
            if new == "poisson":
                return "|poisson(%r)|" % mean
            if new == "uniform":
                return "|uniform(%d, %d)|" % (int(mean * 0.5) + 1, int(mean * 1.5) + 3)
            return "|log_normal(%r, 1.2)|" % mean

        out = re.sub(r"\|([a-z_]+)\(([^)]*)\)\|", rf, out)
    try:
        reader.read_molecule(out).build()
    except Exception:
        return None
    return out if out != text else None


_DUMMY = re.compile(r"\[\*:(\d+)\]")


def respell_token(tok_text, seed):
    """Another spelling of one token text (descriptors written by the user are kept, with their weights)."""
    descs = []

    def to_dummy(m):
        if m.group(1):
            raise ValueError("non-single descriptor bond")
        descs.append(m.group(0))
        return "[*:%d]" % len(descs)

    dummies = reader.DESC_RE.sub(to_dummy, tok_text.strip())
    if "[H]" in dummies or "@" in dummies:
        return None  # explicit hydrogens / stereo marks do not survive a rewrite
    mol = Chem.MolFromSmiles(dummies)
    if mol is None or mol.GetNumAtoms() - len(descs) < 2:
        return None
    for a in mol.GetAtoms():
        if a.GetAtomMapNum() and a.GetDegree() != 1:
            return None
    # transition lists index descriptors by their written position: keep the written order of the descriptors
    want = [str(k + 1) for k in range(len(descs))]
    smi = None
    for cand in Chem.MolToRandomSmilesVect(mol, 12, randomSeed=int(seed) % 100000 + 1):
        if _DUMMY.findall(cand) == want and cand != dummies:
            smi = cand
            break
    if smi is None:
        return None
    out = _DUMMY.sub(lambda m: descs[int(m.group(1)) - 1], smi)
    # the rewrite must denote the same token: same canonical form with the dummies in place
    back = Chem.MolFromSmiles(smi)
    if back is None or Chem.MolToSmiles(back) != Chem.MolToSmiles(mol):
        return None
    return out


def respell(rnd, text):
    """The same molecule with its tokens written in another atom order (element structure, weights, laws untouched)."""
    try:
        parts = reader._split_elements(text.strip())
    except Exception:
        return None
    if reader.MIX_RE.search(text):
        return None
    out = ""
    changed = False
    n = len(parts)
    for i, (kind, t) in enumerate(parts):
        if kind == "tok":
            # a prefix is attached through its last written atom, a suffix through its first, a connector through both:
            # rewriting would move the implicit attachment point, so only tokens with user-written descriptors are rewritten
            if reader.DESC_RE.search(t):
                new = None
                try:
                    new = respell_token(t, rnd.randrange(1 << 20))
                except Exception:
                    new = None
                if new and new != t:
                    changed = True
                    t = new
            out += t
            continue
        close = t.rfind("}")
        body, dist = t[1:close], t[close + 1:]
        first_end = body.find("]")
        last_start = body.rfind("[")
        left, right, middle = body[: first_end + 1], body[last_start:], body[first_end + 1: last_start]
        rep_text, semi, end_text = middle.partition(";")

        def rew(tok_texts):
            nonlocal changed
            res = []
            for tt in tok_texts.split(","):
                if not tt.strip():
                    continue
                new = None
                try:
                    new = respell_token(tt, rnd.randrange(1 << 20))
                except Exception:
                    new = None
                if new and new != tt.strip():
                    changed = True
                    res.append(new)
                else:
                    res.append(tt.strip())
            return ", ".join(res)

        out += "{" + left + rew(rep_text) + ((";" + " " + rew(end_text)) if semi and end_text.strip() else "") + right + "}" + dist
    if not changed:
        return None
    try:
        a = reader.read_molecule(text).build()
        b = reader.read_molecule(out).build()
        if [Chem.MolToSmiles(t.frag) for t in a.residues()] != [Chem.MolToSmiles(t.frag) for t in b.residues()]:
            return None
    except Exception:
        return None
    return out


def respace(rnd, text):
    """The same string with blanks at the places the README writes them: after the left terminal, before the right terminal,
    after the commas and the semicolon of a stochastic object (`{[$] [$]CC[$], [$]CO[$]; [$][H] [$]}`)."""
    import re

    def body(m):
        b = m.group(0)
        if rnd.random() < 0.6:
            b = re.sub(r"^(\{\[[^\]]*\])(?=\S)", r"\1 ", b)
        if rnd.random() < 0.6:
            b = re.sub(r"(?<=\S)(\[[^\[\]]*\]\})$", r" \1", b)
        if rnd.random() < 0.6:
            b = re.sub(r",(?=\S)", ", ", b)
        if rnd.random() < 0.6:
            b = re.sub(r";(?=\S)", "; ", b)
        return b

    return re.sub(r"\{[^{}]*\}", body, text)
