"""Simulated file layer behind forcefield_helper.open (seam S8).

Virtual names ('virt:rules:<n>', 'virt:params:<n>') are byte-identical copies of the bundled files; every open is an
event; a fault plan keyed by the index of the open call injects open errors and read errors."""
import builtins
import errno
import io
import os


class SimFS:
    def __init__(self, world, data_dir):
        self.world = world
        self.data_dir = data_dir
        self.opens = 0
        self.faults = {}  # open index -> kind
        self.fired = []

    def content_path(self, name):
        name = str(name)
        if name.startswith("virt:rules:"):
            return os.path.join(self.data_dir, "opls.par"), "rules"
        if name.startswith("virt:altparams:"):
            return os.path.join(self.data_dir, "ffnonbonded.itp"), "altparams"
        if name.startswith("virt:params:"):
            return os.path.join(self.data_dir, "ffnonbonded.itp"), "params"
        role = "rules" if name.endswith("opls.par") else ("params" if name.endswith("ffnonbonded.itp") else "other")
        return name, role

    def open(self, filename, *a, **k):
        idx = self.opens
        self.opens += 1
        path, role = self.content_path(filename)
        fault = self.faults.get(idx)
        self.world.event({"k": "io", "op": "open", "role": role, "virtual": str(filename).startswith("virt:"), "fault": fault, "i": idx})
        if fault is not None:
            self.fired.append((idx, fault))
            if fault == "enoent":
                raise FileNotFoundError(errno.ENOENT, "simulated: no such file", str(filename))
            if fault == "eacces":
                raise PermissionError(errno.EACCES, "simulated: permission denied", str(filename))
            if fault == "eio_open":
                raise OSError(errno.EIO, "simulated: I/O error on open", str(filename))
            if fault.startswith("read_error@"):
                n = int(fault.split("@")[1])
                with builtins.open(path, "r") as fh:
                    lines = fh.readlines()
                return _FailingFile(lines, n)
        if role == "altparams":
            # a parameter file with different content (every epsilon doubled): results must follow the files of the call
            with builtins.open(path, "r") as fh:
                lines = fh.readlines()
            out = []
            for line in lines:
                parts = line.split()
                if len(parts) >= 8 and parts[0].startswith("opls_"):
                    try:
                        parts[7] = "%.5e" % (2.0 * float(parts[7]))
                        line = " " + "   ".join(parts) + "\n"
                    except ValueError:
                        pass
                out.append(line)
            return io.StringIO("".join(out))
        return builtins.open(path, *a, **k)


class _FailingFile:
    """Text file object whose iteration raises EIO after n lines."""

    def __init__(self, lines, n):
        self.lines = lines
        self.n = n
        self.pos = 0

    def __enter__(self):
        return self

    def __exit__(self, *exc):
        return False

    def __iter__(self):
        return self

    def __next__(self):
        if self.pos >= self.n:
            raise OSError(errno.EIO, "simulated: I/O error while reading")
        if self.pos >= len(self.lines):
            raise StopIteration
        line = self.lines[self.pos]
        self.pos += 1
        return line

    def read(self, *a):
        raise OSError(errno.EIO, "simulated: I/O error while reading")

    def readlines(self):
        raise OSError(errno.EIO, "simulated: I/O error while reading")

    def close(self):
        pass
