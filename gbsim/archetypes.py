"""Seeded workload generator: G-BigSMILES inputs of every archetype in README / SI.md.

Every generator returns (text, tags).  Text is then read by reader.py into the AST the
reference model works from, and by the real parser into the object under test.
All archetypes are well-posed by construction (every descriptor type that can be open
has a compatible repeat-unit descriptor and a compatible end group or is the reserved
terminal); wellposed.py re-checks this on the AST.
"""
import math

# two-functional units, written head ({0}) ... tail ({1})
UNITS2 = [
    ("{0}CC{1}", "ethylene"),
    ("{0}CC({1})c1ccccc1", "styrene"),
    ("{0}CC({1})C(=O)OC", "acrylate"),
    ("{0}C(N)C{1}", "aminoethylene"),
    ("{0}COC{1}", "ether"),
    ("{0}CCO{1}", "peo"),
    ("{0}[Si](C)(C)O{1}", "siloxane"),
    ("{0}c1ccc(cc1){1}", "phenylene"),
    ("{0}C(=O)CCCCC(=O){1}", "adipoyl"),
    ("{0}NCCCCCCN{1}", "hmda"),
    ("{0}CC(Cl){1}", "vinylchloride"),
    ("{0}C(F)(F)C(F)(F){1}", "ptfe"),
    ("{0}CC({1})C(=O)[O-]", "acrylate_anion"),
    ("{0}CC({1})C[N+](C)(C)C", "ammonium"),
    ("C({0})C{1}", "ethylene_branchfirst"),
    ("{0}C1CCC(CC1){1}", "cyclohexylene"),
    ("{0}c1ccc2cc(ccc2c1){1}", "naphthylene"),
    ("{0}[13CH2]C{1}", "c13"),
    ("{0}CC(C#N){1}", "acrylonitrile"),
    ("{0}CC(Br){1}", "vinylbromide"),
    ("{0}CC(=O)O{1}", "glycolide"),
    ("{0}C(C)C{1}", "propylene"),
    ("{0}CS{1}", "thioether"),
    ("{0}C=C{1}", "vinylene"),  # the two attachment atoms are joined by a double bond
    ("{0}c1ccccc1{1}", "ortho_phenylene"),  # ... by an aromatic ring-closure bond
    ("{0}C#C{1}", "ethynylene"),
    ("{0}c1ccc(s1){1}", "thiophenediyl"),
    ("{0}c1ccc(cn1){1}", "pyridinediyl"),
    ("{0}C1CC({1})CO1", "oxolane_ring_closure_after_descriptor"),
    ("{0}CC({1})C(=O)N(C)C", "acrylamide"),
    ("{0}C(C)(C)C(=O)O{1}", "lactone_like"),
    ("{0}[CH2][CH]({1})C", "bracket_carbons"),
    ("{0}CC({1})CCl", "two_letter_side_chain"),
    ("{0}C([H])(CC){1}", "explicit_h_after_attachment_atom"),
    ("{0}C({1})(C)C[H]", "explicit_h_last"),
    ("{0}C([2H])(c1ccccc1)C{1}", "deuterated_styrene"),  # a labelled hydrogen is an atom of its own (RDKit does not fold it)
    ("{0}C([2H])([2H])C{1}", "dideutero_ethylene"),
    ("{0}CC([3H])(C){1}", "tritiated_propylene"),
    # every letter of the organic subset somewhere before a descriptor (aromatic p / o, B, P, I)
    ("{0}Cc1ccpc(c1)CC{1}", "phosphinine"),
    ("{0}c1ccc(o1)C{1}", "furandiyl"),
    ("{0}CB(C)C{1}", "borane"),
    ("{0}CP(C)C{1}", "phosphine"),
    ("{0}CC(I)C{1}", "iodide"),
    ("{0}C[C@H](C){1}", "propylene_stereo_a"),  # SI.md tacticity examples: bracket attachment atom with a stereo mark
    ("{0}C[C@@H](C){1}", "propylene_stereo_b"),
    ("{0}[C@H](C)C{1}", "stereo_attachment_first"),
    ("{0}C[C@](C)(CC){1}", "stereo_quaternary"),
]
# explicit [H] written before an attachment atom: the tokenizer's atom index is shifted (known finding F-explicit-H-index)
UNITS2_HSHIFT = [("{0}C([H])C{1}", "explicit_h_before_attachment_atom"), ("{0}C([H])([H])CC{1}", "two_explicit_h_before_attachment_atom")]
WEIGHT_TEXTS_TINY = ["1e-9", "3e-9", "2.5e-10", "1e-12", "4e-9"]
_TINY = [False]
# shapes that trigger the two known token-parser defects on the pinned tree
UNITS2_BRANCHY = [
    ("{0}CC(C)({1})C(=O)OC", "mma"),  # descriptor in a branch following another branch
    ("C({0}){1}", "methylene_adjacent"),  # descriptor right after a branch-closing descriptor
    ("{0}CC(CC)({1})", "butene_tailbranch"),
]
UNITS4 = [("{0}C(C{1})(C{2})C{3}", "pentaerythrityl"), ("{0}[Si]({1})({2})O{3}", "silane4")]
UNITS3 = [
    ("{0}CC({1})C{2}", "branch3"),
    ("{0}N(C{1})C{2}", "amine3"),
    ("{0}c1cc({1})cc(c1){2}", "benzene3"),
    ("{0}C(C{1})C{2}", "glycerol_like"),
    ("{0}[Si](C)({1})O{2}", "silane3"),
]
ENDS = [
    ("{0}[H]", "H"), ("{0}C", "methyl"), ("{0}O", "hydroxyl"), ("{0}CO", "methylol"), ("{0}N(C)C", "dimethylamino"),
    ("{0}F", "fluoro"), ("{0}Br", "bromo"), ("{0}Cl", "chloro"), ("{0}C(C)(C)C", "tbutyl"), ("{0}c1ccccc1", "phenyl"),
    ("{0}[Si](C)(C)C", "tms"), ("{0}C#N", "cyano"), ("CC{0}", "ethyl_tail"), ("OC{0}", "methylol_tail"),
    ("C(C)(C){0}", "isopropyl_tail"), ("{0}S", "thiol"), ("{0}C(=O)O", "acid"), ("{0}[2H]", "deuterium"), ("{0}C([2H])([2H])[2H]", "cd3"),
]
PLAIN = ["CC", "OC", "NC", "[H]", "C", "F", "N#CC(C)(C)", "CCOC(=O)C(C)(C)", "c1ccccc1C", "C(C)C", "O", "Br", "CS"]
PLAIN_SUFFIX = ["CC", "CO", "CN", "[H]", "C", "F", "Br", "C(C)(C)C#N", "Cc1ccccc1", "[Si](C)(C)C", "O", "Cl"]
CONNECT = ["COOC", "CC[Si]CC", "CC", "C", "OCCO", "c1ccc(cc1)", "CNC"]

WEIGHT_TEXTS = ["2", "2.0", ".5", "0.5", "3", "1", "1.0", "0.25", "8", "10.1", "0.01", "1e1", "4"]
FAMILIES = ["gauss", "uniform", "poisson", "log_normal", "flory_schulz", "schulz_zimm"]

_UNIT_MASS_CACHE = {}


def unit_mass(template):
    if template not in _UNIT_MASS_CACHE:
        from rdkit import Chem
        from rdkit.Chem import Descriptors

        smi = template.replace("{0}", "").replace("{1}", "").replace("{2}", "").replace("()", "")
        m = Chem.MolFromSmiles(smi)
        _UNIT_MASS_CACHE[template] = Descriptors.HeavyAtomMolWt(m) if m is not None else 30.0
    return _UNIT_MASS_CACHE[template]


def make_dist(rnd, mean_unit, n_units, family=None, safe=False):
    """Distribution text with a mean of about n_units * mean_unit."""
    fam = family or rnd.choice(FAMILIES)
    if safe and fam in ("flory_schulz", "schulz_zimm"):
        fam = rnd.choice(["gauss", "uniform", "poisson", "log_normal"])
    T = max(2.0, mean_unit * n_units)
    if fam == "gauss":
        sig = rnd.choice([0.0, 0.1 * T, 0.3 * T, 0.6 * T])
        return f"|gauss({_f(rnd, T)}, {_f(rnd, sig)})|", fam
    if fam == "uniform":
        lo = int(max(1, T * rnd.choice([0.2, 0.5, 0.8])))
        hi = int(T * rnd.choice([1.1, 1.5, 2.0])) + 1
        if hi <= lo:
            hi = lo + 1
        return f"|uniform({lo}, {hi})|", fam
    if fam == "poisson":
        return f"|poisson({_f(rnd, round(T, 1))})|", fam
    if fam == "log_normal":
        D = rnd.choice([1.02, 1.1, 1.3, 1.8])
        return f"|log_normal({_f(rnd, T)}, {D})|", fam
    if fam == "flory_schulz":
        a = min(0.9, 2.0 / (T + 1.0))
        return f"|flory_schulz({float('%.3g' % a)})|", fam
    if fam == "schulz_zimm":
        D = rnd.choice([1.003, 1.05, 1.2, 1.5, 1.9, 1.006])  # below 1.01: nearly monodisperse declarations (anionic grades)
        Mn = float(round(T))
        Mw = float(round(Mn * D)) + (1.0 if round(Mn * D) == Mn else 0.0)
        return f"|schulz_zimm({_f(rnd, Mw)}, {_f(rnd, Mn)})|", fam
    raise ValueError(fam)


def _f_mix(rnd, x):
    """number format for mixture specifiers: no leading-dot form -- Mixture strips '.' and '|' from both ends of the text, so
    `.|.55|` is read as 55 (a parsing defect outside the claimed properties, C02 / C12; noted in DESIGN.md section 6)"""
    s = _f(rnd, x).strip()
    return "0" + s if s.startswith(".") else s


def _f(rnd, x):
    x = float(x)
    forms = [repr(x), "%.6g" % x, repr(x)]
    if x == int(x):
        forms += [str(int(x)), str(int(x)) + "."]
    if x >= 10:
        m, e = ("%.15e" % x).split("e")
        forms.append(m.rstrip("0").rstrip(".") + "e" + str(int(e)))  # exponent form, value unchanged
        forms.append(m.rstrip("0").rstrip(".") + "e+" + str(int(e)))  # ... with an explicit sign, as '%e' / repr print it
        forms.append(m.rstrip("0").rstrip(".") + "E+0" + str(int(e)))
    if 0 < x < 1:
        m, e = ("%.15e" % x).split("e")
        forms.append(m.rstrip("0").rstrip(".") + "e" + str(int(e)))  # '5e-2'
        forms.append(repr(x).lstrip("0"))  # '.05'
    s = rnd.choice(forms)
    if rnd.random() < 0.15:
        s = " " + s + " "
    return s


def _w(rnd, p=0.35):
    """Optional scalar weight text."""
    if _TINY[0]:
        # every weight of this molecule is tiny (exponent notation): only their ratios matter
        return "|" + rnd.choice(WEIGHT_TEXTS_TINY) + "|" if rnd.random() < 0.8 else ""
    if rnd.random() < p:
        sp = rnd.choice(["", "", " "])
        return "|" + sp + rnd.choice(WEIGHT_TEXTS) + sp + "|"
    return ""


def _d(sym, did="", w=""):
    return f"[{sym}{did}{w}]"


def _sep(rnd):
    return rnd.choice([", ", ",", " , ", ", "])


def _semi(rnd):
    return rnd.choice(["; ", ";", " ; "])


def _units2(rnd, n, branchy):
    pool = UNITS2 + (UNITS2_BRANCHY if branchy else [])
    units = rnd.sample(pool, n)
    if _HSHIFT[0] and rnd.random() < 0.5:
        units[0] = rnd.choice(UNITS2_HSHIFT)
    return units


_HSHIFT = [False]


def linear_directed(rnd, cfg):
    """homo / random / weighted copolymer of directed units, prefix or end-group start."""
    n_u = rnd.choice([1, 1, 2, 2, 3])
    units = _units2(rnd, n_u, cfg.get("branchy", False))
    did = rnd.choice(["", "", "", "1", "2", "12", "0"])
    tags = {"arch:linear_directed", f"units:{n_u}"}
    start_prefix = rnd.random() < 0.6
    end_suffix = rnd.random() < 0.6
    list_weights = rnd.random() < 0.3
    # end groups first: list weights are indexed over repeat-unit then end-group descriptors
    end_specs = []  # (template, symbol)
    if not start_prefix or not end_suffix or rnd.random() < 0.3:
        # an end-group start may pick any end group: with an open right terminal only '>' end groups
        # leave a '>' descriptor to hand over (SI: {[][<]CC([>])c1ccccc1; CCOC(=O)C(C)(C)[>], CC(CN)[>] [<]}[Br])
        if start_prefix or not end_suffix:
            for tpl, _ in rnd.sample(ENDS, rnd.choice([1, 2])):
                end_specs.append((tpl, "<"))
        for tpl, _ in rnd.sample(ENDS, rnd.choice([1, 2])):
            end_specs.append((tpl, ">"))
        rnd.shuffle(end_specs)
        if len(end_specs) > 2:
            tags.add("ends:multi")
    n_desc = 2 * n_u + len(end_specs)
    utexts = []
    zero_unit = rnd.choice([0, 0, n_u - 1]) if (n_u >= 2 and not list_weights and not _TINY[0] and rnd.random() < 0.12) else None
    for ui, (tpl, name) in enumerate(units):
        if list_weights:
            tags.add("weights:list")
            # head '<' reacts with tails '>' (odd positions), tail '>' with heads (even positions);
            # end-group positions may get weight too: the list then installs an end group during growth
            hw = [0.0] * n_desc
            tw = [0.0] * n_desc
            for uj in range(n_u):
                hw[2 * uj + 1] = float(rnd.choice([0, 1, 3, 7]))
                tw[2 * uj] = float(rnd.choice([0, 1, 3, 7]))
            risky = end_suffix and cfg.get("allow_illposed", True) and rnd.random() < 0.15
            if risky:
                # a list that may close the chain although a suffix follows: generation may then fail at the hand-over, but
                # every pick up to there follows the list as written (outside C06's quantifier: not well-posed)
                tags.add("illposed:list_to_end_group_before_suffix")
            for ej, (_, esym) in enumerate(end_specs):
                if (not end_suffix or risky) and rnd.random() < (0.3 if not risky else 0.7):
                    # (with an open right terminal a list that ends the chain would leave nothing to hand over)
                    tags.add("list:to_end_group")
                    if esym == ">":
                        hw[2 * n_u + ej] = float(rnd.choice([1, 2]))
                    else:
                        tw[2 * n_u + ej] = float(rnd.choice([1, 2]))
            if sum(hw[: 2 * n_u]) == 0:
                hw[1] = 1.0
            if sum(tw[: 2 * n_u]) == 0:
                tw[0] = 1.0
            if cfg.get("allow_illposed", True) and rnd.random() < 0.12:
                # weight on an *incompatible* descriptor (same symbol): symbol and id take precedence over list weights, so
                # generation may refuse (raise) but must never form that bond.  Outside C06's quantifier (not well-posed).
                tags.add("illposed:list_weight_on_incompatible")
                tw[2 * rnd.randrange(n_u) + 1] = float(rnd.choice([1, 3]))
            h = _d("<", did, "|" + " ".join(_wnum(rnd, x) for x in hw) + "|")
            t = _d(">", did, "|" + " ".join(_wnum(rnd, x) for x in tw) + "|")
        else:
            wh, wt = _w(rnd), _w(rnd)
            if ui == zero_unit:
                # a switched-off comonomer: its head has weight 0 while another unit's head is positive, so it is never entered
                wh = rnd.choice(["|0|", "|0.0|", "| 0 |"])
                tags.add("weights:zero_among_positive")
            if wh or wt:
                tags.add("weights:scalar")
            h = _d("<", did, wh)
            t = _d(">", did, wt)
        utexts.append(tpl.format(h, t))
    mean_unit = sum(unit_mass(t) for t, _ in units) / n_u
    dist, fam = make_dist(rnd, mean_unit, rnd.choice([1, 2, 3, 5, 8]), cfg.get("family"), cfg.get("safe_dist", False))
    tags.add("family:" + fam)
    left = _d(">", did) if start_prefix else "[]"
    if start_prefix and rnd.random() < 0.3:
        # the left terminal's weight / list is what the prefix's descriptor uses for its first pick
        if rnd.random() < 0.5:
            lw = [0.0] * n_desc
            for uj in range(n_u):
                lw[2 * uj] = float(rnd.choice([0, 1, 3, 7]))
            if sum(lw) == 0:
                lw[0] = 1.0
            left = _d(">", did, "|" + " ".join(_wnum(rnd, x) for x in lw) + "|")
            tags.add("left_terminal:list")
        else:
            left = _d(">", did, "|" + rnd.choice(WEIGHT_TEXTS) + "|")
            tags.add("left_terminal:weight")
    right = _d("<", did) if end_suffix else "[]"
    ends = []
    for tpl, esym in end_specs:
        wtxt = _w(rnd, 0.25)
        if list_weights and not start_prefix and rnd.random() < 0.5:
            # an end group that may start the chain carries its own list for the first pick ('>' meets heads, '<' meets tails)
            lw = [0.0] * n_desc
            for uj in range(n_u):
                lw[2 * uj + (0 if esym == ">" else 1)] = float(rnd.choice([0, 1, 3, 7]))
            if sum(lw) == 0:
                lw[0 if esym == ">" else 1] = 1.0
            wtxt = "|" + " ".join(_wnum(rnd, x) for x in lw) + "|"
            tags.add("end_group:list")
        ends.append(tpl.format(_d(esym, did, wtxt)))
    body = "{" + left + rnd.choice(["", " "]) + _sep(rnd).join(utexts)
    if ends:
        body += _semi(rnd) + _sep(rnd).join(ends)
    body += rnd.choice(["", " "]) + right + "}" + dist
    text = ""
    if start_prefix:
        tags.add("start:prefix")
        p = rnd.choice(PLAIN)
        if rnd.random() < 0.3:
            p = p + _d(">", did, _w(rnd, 0.5))
            tags.add("prefix:explicit")
        text += p
    else:
        tags.add("start:end_group")
    text += body
    if end_suffix:
        s = rnd.choice(PLAIN_SUFFIX)
        if rnd.random() < 0.3:
            s = _d("<", did) + s
            tags.add("suffix:explicit")
        text += s
        tags.add("end:suffix")
    else:
        tags.add("end:closed")
    return text, tags


def _wnum(rnd, x):
    if x == int(x):
        return rnd.choice([str(int(x)), repr(float(x))])
    return repr(x)


def undirected(rnd, cfg):
    """'$' chemistry: AA-type units, closed by '$' end groups or prefix / suffix."""
    n_u = rnd.choice([1, 1, 2])
    units = _units2(rnd, n_u, cfg.get("branchy", False))
    did = rnd.choice(["", "", "1", "3", "0"])
    tags = {"arch:undirected", f"units:{n_u}"}
    start_prefix = rnd.random() < 0.5
    end_suffix = rnd.random() < 0.5
    n_ends = rnd.choice([1, 2, 3]) if (not (start_prefix and end_suffix) or rnd.random() < 0.3) else 0
    use_lists = rnd.random() < 0.2
    n_desc = 2 * n_u + n_ends

    def dollar_list():
        # every '$' may meet every other '$': any non-negative list with weight on a repeat-unit descriptor is well-formed
        lw = [float(rnd.choice([0, 0, 1, 2, 5])) for _ in range(2 * n_u)] + [0.0] * n_ends
        if sum(lw) == 0:
            lw[rnd.randrange(2 * n_u)] = 1.0
        return "|" + " ".join(_wnum(rnd, x) for x in lw) + "|"

    if use_lists:
        tags.add("weights:list")
        utexts = [tpl.format(_d("$", did, dollar_list()), _d("$", did, dollar_list())) for tpl, _ in units]
    else:
        utexts = []
        zero_at = rnd.choice([0, 0, 2 * n_u - 1]) if (not _TINY[0] and rnd.random() < 0.12) else None
        for ui, (tpl, _) in enumerate(units):
            ws = [_w(rnd), _w(rnd)]
            for j in (0, 1):
                if zero_at == 2 * ui + j:
                    # one '$' descriptor with weight 0 among positive ones: never chosen as a partner, still grows when open
                    ws[j] = rnd.choice(["|0|", "|0.0|"])
                    tags.add("weights:zero_among_positive")
            utexts.append(tpl.format(_d("$", did, ws[0]), _d("$", did, ws[1])))
    mean_unit = sum(unit_mass(t) for t, _ in units) / n_u
    dist, fam = make_dist(rnd, mean_unit, rnd.choice([1, 2, 4, 6]), cfg.get("family"), cfg.get("safe_dist", False))
    tags.add("family:" + fam)
    ends = []
    for tpl, _ in rnd.sample(ENDS, n_ends):
        ends.append(tpl.format(_d("$", did, _w(rnd, 0.3))))
    left = _d("$", did) if start_prefix else "[]"
    if start_prefix and use_lists and rnd.random() < 0.6:
        left = _d("$", did, dollar_list())
        tags.add("left_terminal:list")
    right = _d("$", did) if end_suffix else "[]"
    body = "{" + left + _sep(rnd).join(utexts)
    if ends:
        body += _semi(rnd) + _sep(rnd).join(ends)
    body += right + "}" + dist
    text = (rnd.choice(PLAIN) if start_prefix else "") + body + (rnd.choice(PLAIN_SUFFIX) if end_suffix else "")
    tags.add("start:prefix" if start_prefix else "start:end_group")
    tags.add("end:suffix" if end_suffix else "end:closed")
    return text, tags


def step_growth(rnd, cfg):
    """AA / BB condensation: [<]A[<], [>]B[>]."""
    a = rnd.choice(UNITS2)[0]
    b = rnd.choice(UNITS2)[0]
    did = rnd.choice(["", "", "4"])
    tags = {"arch:step_growth", "units:2"}
    A = a.format(_d("<", did, _w(rnd, 0.2)), _d("<", did, _w(rnd, 0.2)))
    B = b.format(_d(">", did, _w(rnd, 0.2)), _d(">", did, _w(rnd, 0.2)))
    e_lt = rnd.choice(ENDS)[0].format(_d("<", did))
    e_gt = rnd.choice(ENDS)[0].format(_d(">", did))
    mean_unit = (unit_mass(a) + unit_mass(b)) / 2
    dist, fam = make_dist(rnd, mean_unit, rnd.choice([2, 3, 5]), cfg.get("family"), cfg.get("safe_dist", False))
    tags.add("family:" + fam)
    if rnd.random() < 0.5:
        text = "{[]" + A + _sep(rnd) + B + _semi(rnd) + e_lt + _sep(rnd) + e_gt + "[]}" + dist
        tags.add("start:end_group")
    else:
        text = rnd.choice(PLAIN) + "{" + _d(">", did) + A + _sep(rnd) + B + _semi(rnd) + e_lt + _sep(rnd) + e_gt + " []}" + dist
        tags.add("start:prefix")
    tags.add("end:closed")
    return text, tags


def alternating_ids(rnd, cfg):
    """strict alternation through descriptor ids (SI: [<1]A[>2], [<2]B[>1])."""
    a, b = [u[0] for u in rnd.sample(UNITS2, 2)]
    tags = {"arch:alternating_ids", "units:2"}
    # the two ids; "no id" is an id of its own, different from id 0
    i1, i2 = rnd.choice([("1", "2"), ("1", "2"), ("", "0"), ("0", "3"), ("", "7"), ("0", ""),
                         # ids of several digits that share digits with the other id: an id is a number, not a character
                         ("1", "12"), ("10", "1"), ("21", "2"), ("3", "30"), ("12", "21")])
    if i1 == "" or i2 == "":
        tags.add("ids:none_vs_number")
    if len(i1) > 1 or len(i2) > 1:
        tags.add("ids:multi_digit")
    A = a.format(f"[<{i1}]", f"[>{i2}]")
    B = b.format(f"[<{i2}]", f"[>{i1}]")
    e = rnd.choice(ENDS)[0]
    ends = [e.format(f"[<{i1}]"), e.format(f"[<{i2}]")]
    mean_unit = (unit_mass(a) + unit_mass(b)) / 2
    dist, fam = make_dist(rnd, mean_unit, rnd.choice([2, 4, 6]), cfg.get("family"), cfg.get("safe_dist", False))
    tags.add("family:" + fam)
    if rnd.random() < 0.5:
        e2 = rnd.choice(ENDS)[0]
        ends += [e2.format(f"[>{i1}" + _w(rnd, 0.4) + "]"), e2.format(f"[>{i2}]")]
        rnd.shuffle(ends)
        text = "{[]" + A + ", " + B + "; " + ", ".join(ends) + "[]}" + dist
        tags.add("start:end_group")
    else:
        text = rnd.choice(PLAIN) + "{[>" + i2 + "]" + A + ", " + B + "; " + ", ".join(ends) + "[]}" + dist
        tags.add("start:prefix")
    tags.add("end:closed")
    return text, tags


def star(rnd, cfg):
    """hub with several arms: [H]{[$] [$]C(C[<])(C[<])(C[<]), [>]CC[<]; [>][H] []}."""
    arm = rnd.choice(UNITS2)[0]
    n_arm = rnd.choice([2, 3])
    tags = {"arch:star", "hub"}
    if n_arm == 3:
        hub = rnd.choice(["[$]C(C[<])(C[<])(C[<])", "[$]C(C[<])(C[<])C[<]", "[$][Si]([<])([<])O[<]", "[$]c1c([<])cc([<])cc1[<]"])
    else:
        hub = rnd.choice(["[$]C(C[<])(C[<])", "[$]CC([<])C[<]", "[$]N(C[<])C[<]", "[$]c1cc([<])cc(c1)[<]"])
    two_kinds = rnd.random() < 0.4
    units = [hub, arm.format("[>]", "[<]")]
    ends = [rnd.choice(ENDS)[0].format("[>]")]
    if two_kinds:
        k_last = hub.rfind("[<]")
        hub2 = hub[:k_last] + "[<2" + _w(rnd, 0.5) + "]" + hub[k_last + 3:]
        units[0] = hub2
        arm2 = rnd.choice(UNITS2)[0]
        w = _w(rnd, 0.5)
        units.append(arm2.format("[>2" + w + "]", "[<2" + w + "]"))
        ends.append(rnd.choice(ENDS)[0].format("[>2]"))
        tags.add("ends:multi")
    mean_unit = unit_mass(arm)
    dist, fam = make_dist(rnd, mean_unit, rnd.choice([3, 5, 8]), cfg.get("family"), cfg.get("safe_dist", False))
    tags.add("family:" + fam)
    text = rnd.choice(["[H]", "C", "OC"]) + "{[$] " + ", ".join(units) + "; " + ", ".join(ends) + " []}" + dist
    tags.update({"start:prefix", "end:closed"})
    return text, tags


def hyperbranched(rnd, cfg):
    """C{[$][$]CC(CC[$])(CC[$]),[$]CC[$]; [$][H][$]}[H]"""
    tags = {"arch:hyperbranched", "hub"}
    w = _w(rnd, 0.5)
    if cfg.get("branchy", False) and rnd.random() < 0.5:
        br = "[$]CC([$])[$]"  # adjacent descriptors: the SI example itself
    else:
        br = f"[$]CC(CC[${w}])(CC[${w}])"
    lin = rnd.choice(UNITS2)[0].format("[$]", "[$]")
    end = rnd.choice(ENDS)[0].format("[$]")
    dist, fam = make_dist(rnd, 28.0, rnd.choice([3, 5, 8]), cfg.get("family"), cfg.get("safe_dist", False))
    tags.add("family:" + fam)
    closed = rnd.random() < 0.5
    if closed:
        text = "{[]" + br + "," + lin + "; " + end + "[]}" + dist
        tags.update({"start:end_group", "end:closed"})
    else:
        text = "C{[$]" + br + "," + lin + "; " + end + "[$]}" + dist + "[H]"
        tags.update({"start:prefix", "end:suffix"})
    return text, tags


def graft_lists(rnd, cfg):
    """SI bottlebrush: list weights that install end groups during growth."""
    tags = {"arch:graft_lists", "weights:list", "hub"}
    k = rnd.choice([1, 2, 3])
    w3 = rnd.choice(["3", "1", "0.5"])
    dist, fam = make_dist(rnd, 44.0, rnd.choice([3, 5, 8]), cfg.get("family"), cfg.get("safe_dist", False))
    tags.add("family:" + fam)
    # the end group a list installs during growth carries mass in most runs ([H] weighs nothing)
    eg = rnd.choice(["[>][H]", "[>]Br", "[>]C", "[>]CO", "[>]N(C)C", "[>]c1ccccc1", "[>]F"])
    arm = rnd.choice(["[>]CCO", "[>]CC", "[>]C(C)C", "[>]CC(=O)O"])
    text = ("N#CC(C)(C){[$] O([<|" + w3 + "|])(C([$])C[$]), " + arm + "[<|0 0 0 1 0 " + str(k) + "|] ; " + eg + " [$]}" + dist
            + rnd.choice(["Br", "[H]", "C"]))
    tags.update({"start:prefix", "end:suffix"})
    return text, tags


def end_transition(rnd, cfg):
    """SI: {[] [<]CC([>|40 0 1 0|])c1ccccc1 ; [<|0|][H], [>]N []}"""
    tags = {"arch:end_transition", "weights:list"}
    u = rnd.choice(UNITS2)[0]
    a = rnd.choice(["40", "10", "3", "1"])
    b = rnd.choice(["1", "2", "0.5"])
    dist, fam = make_dist(rnd, unit_mass(u), rnd.choice([2, 4, 7]), cfg.get("family"), cfg.get("safe_dist", False))
    tags.add("family:" + fam)
    eg = rnd.choice(["[H]", "[H]", "Br", "C", "CO", "c1ccccc1"])
    text = "{[] " + u.format("[<]", f"[>|{a} 0 {b} 0|]") + " ; [<|0|]" + eg + ", [>]N []}" + dist
    tags.update({"start:end_group", "end:closed"})
    return text, tags


def branched_lists(rnd, cfg):
    """three-functional units with list weights: a list may install an end group on one branch while growth goes on elsewhere."""
    tags = {"arch:branched_lists", "weights:list", "hub"}
    # descriptors: 0 '<' head, 1 '>' tail a, 2 '>' tail b (unit 1); 3 '<', 4 '>' (unit 2); 5 '<' end group; 6 '>' end group
    e_lt = rnd.choice(ENDS)[0]
    e_gt = rnd.choice(ENDS)[0]
    u2 = rnd.choice(UNITS2)[0]
    wa = [rnd.choice([1, 2, 5]), 0, 0, rnd.choice([0, 1, 3]), 0, rnd.choice([0, 1, 2]), 0]
    wb = [rnd.choice([0, 1]), 0, 0, rnd.choice([1, 2]), 0, rnd.choice([1, 3]), 0]
    if sum(wa) == 0:
        wa[0] = 1
    la = "|" + " ".join(str(x) for x in wa) + "|"
    lb = "|" + " ".join(str(x) for x in wb) + "|"
    unit1 = "[<]CC([>" + la + "])C[>" + lb + "]"
    unit2 = u2.format("[<]", "[>]")
    dist, fam = make_dist(rnd, 40.0, rnd.choice([2, 4, 7]), cfg.get("family"), cfg.get("safe_dist", False))
    tags.add("family:" + fam)
    text = (rnd.choice(PLAIN) + "{[>] " + unit1 + ", " + unit2 + "; " + e_lt.format("[<]") + ", " + e_gt.format("[>]") + " []}" + dist)
    tags.update({"start:prefix", "end:closed", "list:to_end_group"})
    return text, tags


def multiblock(rnd, cfg):
    """two or three stochastic objects, with or without connector tokens."""
    n_b = rnd.choice([2, 2, 3])
    tags = {"arch:multiblock", f"blocks:{n_b}"}
    sym_mode = rnd.choice(["dir", "dir", "$"])
    text = rnd.choice(PLAIN)
    for bi in range(n_b):
        n_u = rnd.choice([1, 1, 2])
        units = _units2(rnd, n_u, cfg.get("branchy", False))
        use_lists = sym_mode == "dir" and rnd.random() < 0.35
        if use_lists:
            # Markov-style list weights (SI): the descriptor a block hands over then carries a list into the next block
            tags.add("weights:list")
            tags.add("handover_descriptor_with_list")
            n_desc = 2 * n_u
            utexts = []
            for t, _ in units:
                hw = [0.0] * n_desc
                tw = [0.0] * n_desc
                for uj in range(n_u):
                    hw[2 * uj + 1] = float(rnd.choice([0, 1, 3, 7]))
                    tw[2 * uj] = float(rnd.choice([0, 1, 3, 7]))
                if sum(hw) == 0:
                    hw[1] = 1.0
                if sum(tw) == 0:
                    tw[0] = 1.0
                utexts.append(t.format(_d("<", "", "|" + " ".join(_wnum(rnd, x) for x in hw) + "|"),
                                       _d(">", "", "|" + " ".join(_wnum(rnd, x) for x in tw) + "|")))
            left, right = "[>]", "[<]"
            r_left = rnd.random()
            if r_left < 0.3:
                left = "[>|" + rnd.choice(WEIGHT_TEXTS) + "|]"
            elif r_left < 0.65:
                # the left terminal carries its own list (first pick of the block), different from every unit's list
                lw = [0.0] * n_desc
                for uj in range(n_u):
                    lw[2 * uj] = float(rnd.choice([0, 1, 2, 5]))
                if sum(lw) == 0:
                    lw[0] = 1.0
                left = "[>|" + " ".join(_wnum(rnd, x) for x in lw) + "|]"
                tags.add("left_terminal:list")
        elif sym_mode == "dir":
            utexts = [t.format(_d("<", "", _w(rnd, 0.2)), _d(">", "", _w(rnd, 0.2))) for t, _ in units]
            left, right = "[>]", "[<]"
        else:
            utexts = [t.format("[$]", "[$]") for t, _ in units]
            left, right = "[$]", "[$]"
        ends = ""
        if not use_lists and rnd.random() < 0.25:
            # unused end groups are legal
            ends = "; " + rnd.choice(ENDS)[0].format("[<]" if sym_mode == "dir" else "[$]")
            if sym_mode == "dir":
                ends += ", " + rnd.choice(ENDS)[0].format("[>]")
        mean_unit = sum(unit_mass(t) for t, _ in units) / n_u
        dist, fam = make_dist(rnd, mean_unit, rnd.choice([1, 2, 3, 5]), cfg.get("family"), cfg.get("safe_dist", False))
        tags.add("family:" + fam)
        text += "{" + left + _sep(rnd).join(utexts) + ends + right + "}" + dist
        if bi < n_b - 1 and rnd.random() < 0.5:
            text += rnd.choice(CONNECT)
            tags.add("connector")
    text += rnd.choice(PLAIN_SUFFIX)
    tags.update({"start:prefix", "end:suffix"})
    return text, tags


def segmented_ids(rnd, cfg):
    """SI bottlebrush segments: zero-weight descriptors reserved as terminals."""
    tags = {"arch:segmented", "hub", "weights:zero"}
    n_b = rnd.choice([1, 2])
    text = "C"
    for bi in range(n_b):
        e = rnd.choice(["[H]", "O", "C(=O)", "F"])
        dist, fam = make_dist(rnd, 40.0, rnd.choice([2, 4, 6]), cfg.get("family"), cfg.get("safe_dist", False))
        tags.add("family:" + fam)
        text += "{[$] [$]C(CC[<])C[$2|0|], [>]CC[<]; [>]" + e + " [$2]}" + dist
        text += "C"
    text += "{[$] [$|0|]C(CC[<])C[$|0|], [>]CC[<]; [>]C(=O) [$]}" + make_dist(rnd, 40.0, 3, cfg.get("family"), cfg.get("safe_dist", False))[0] + "[Br]"
    tags.update({"start:prefix", "end:suffix", f"blocks:{n_b + 1}"})
    return text, tags


def plain_molecule(rnd, cfg):
    tags = {"arch:plain"}
    return rnd.choice(["CCO", "C1CCOC1", "CCCCC", "c1ccccc1C", "O", "CC(=O)O", "CN(C)C=O"]), tags


def risky_finalisation(rnd, cfg):
    """A chain that may reach a state which still grows but cannot be finalised: units that switch the open symbol ($ -> <,
    > -> $) under a '$' right terminal.  Trial finalisations (one per growth step) and the real one may then fail; the library
    raises.  Not well-posed (outside C06's quantifier); every molecule that IS returned is judged like any other."""
    if not cfg.get("allow_illposed", True):
        return undirected(rnd, cfg)
    a = rnd.choice(["CC", "CC(C)", "CCC"])
    b, c = rnd.choice([("CCO", "C(=O)CC"), ("CN", "C(=O)C"), ("CCS", "CC(F)")])
    w = rnd.choice(["|0.06|", "|0.2|", "", "|1|"])
    units = ["[$]" + a + "[$]", "[$" + w + "]" + b + "[<]", "[>]" + c + "[$" + w + "]"]
    T = rnd.choice([80, 150, 250])
    dist, fam = make_dist(rnd, 40.0, T / 40.0, cfg.get("family"), cfg.get("safe_dist", False))
    text = rnd.choice(["C", "CC", "OC"]) + "{[$] " + ", ".join(units) + " [$]}" + dist + rnd.choice(["Br", "C", "CO"])
    return text, {"arch:risky_finalisation", "illposed:finalisation_may_fail", "family:" + fam, "start:prefix", "units:3"}


def comb_dormant(rnd, cfg):
    """Comb / graft block: every unit carries a dormant graft point (descriptor of weight 0, own id) that only the final capping
    closes with an end group; the chain itself runs on through a non-empty right terminal."""
    u = rnd.choice(["CC({0})", "CC(C)({0})", "C(C{0})C", "[Si](C)({0})O", "CC(c1ccc({0})cc1)"])
    gid = rnd.choice(["1", "2", "7"])
    # (a graft point of small POSITIVE weight can be grown from, which leaves chain ends no end group fits: not well-posed)
    wg = rnd.choice(["|0|", "|0.0|", "|0|", "|0.001|"])
    if wg == "|0.001|" and not cfg.get("allow_illposed", True):
        wg = "|0|"
    unit = "[<]" + u.format("[$" + gid + wg + "]") + "[>]"
    ends = ["[$" + gid + "]" + rnd.choice(["Br", "C", "OC", "[H]"])]
    if rnd.random() < 0.5:
        ends.append("[<]" + rnd.choice(["Cl", "F"]))
    T = rnd.choice([80, 150, 250])
    dist, fam = make_dist(rnd, 40.0, T / 40.0, cfg.get("family"), cfg.get("safe_dist", False))
    text = rnd.choice(["[H]", "CCC", "OC"]) + "{[>] " + unit + " ; " + ", ".join(ends) + " [<]}" + dist
    tags = {"arch:comb_dormant", "family:" + fam, "start:prefix", "weights:zero_among_positive"}
    if wg == "|0.001|":
        tags.add("illposed:graft_point_can_grow")
    if rnd.random() < 0.4:
        dist2, fam2 = make_dist(rnd, 60.0, 2, cfg.get("family"), cfg.get("safe_dist", False))
        text += "{[>] [<]OCCO[>] [<]}" + dist2
        tags.add("family:" + fam2)
    return text + rnd.choice(["[H]", "N", "C"]), tags


ARCHETYPES = {
    "comb_dormant": comb_dormant,
    "risky_finalisation": risky_finalisation,
    "linear_directed": linear_directed,
    "undirected": undirected,
    "step_growth": step_growth,
    "alternating_ids": alternating_ids,
    "star": star,
    "hyperbranched": hyperbranched,
    "graft_lists": graft_lists,
    "end_transition": end_transition,
    "multiblock": multiblock,
    "segmented": segmented_ids,
    "branched_lists": branched_lists,
}
WEIGHTS = {
    "comb_dormant": 0.8, "risky_finalisation": 0.6, "linear_directed": 5, "undirected": 3, "step_growth": 2, "alternating_ids": 2, "star": 2, "hyperbranched": 2,
    "graft_lists": 2, "end_transition": 1, "multiblock": 4, "segmented": 1, "branched_lists": 2,
}


def gen_molecule(rnd, cfg=None, archetype=None):
    cfg = cfg or {}
    if archetype is None:
        names = list(ARCHETYPES)
        archetype = rnd.choices(names, weights=[WEIGHTS[n] for n in names])[0]
    _TINY[0] = rnd.random() < 0.06 and archetype in ("linear_directed", "undirected", "step_growth", "star", "hyperbranched", "multiblock", "alternating_ids")
    _HSHIFT[0] = cfg.get("allow_illposed", True) and rnd.random() < 0.03
    try:
        text, tags = ARCHETYPES[archetype](rnd, cfg)
    finally:
        tiny, hshift = _TINY[0], _HSHIFT[0]
        _TINY[0] = False
        _HSHIFT[0] = False
    if tiny:
        tags.add("weights:tiny")
    return text, tags


# strings documented in README / SI.md / tests, distributions scaled down so that runs stay short
CORPUS = [
    "{[][$]C([$])C=O,[$]CC([$])CO;[$][H], [$]O[]}|flory_schulz(0.05)|",
    "NC{[$][$]C[$][$]}|uniform(12, 72)|COOC{[$][$]C[$][$]}|uniform(12, 72)|CO",
    "{[][$]C([$])c1ccccc1; [$][H][]}|gauss(400,20)|",
    "CCOC(=O)C(C)(C){[>][<]CC([>])c1ccccc1, [<]CC([>])C(=O)OC [<]}|schulz_zimm(500, 400)|[Br]",
    "CCOC(=O)C(C)(C){[>][<|8|]CC([>|8|])c1ccccc1, [<|2|]CC([>|2|])C(=O)OC [<]}|schulz_zimm(500, 400)|[Br]",
    "CCOC(=O)C(C)(C){[>][<|0 7 0 3|]CC([>|7 0 3 0|])c1ccccc1, [<|0 3 0 7|]CC([>|3 0 7 0|])C(=O)OC [<]}|schulz_zimm(500, 400)|[Br]",
    "CCOC(=O)C(C)(C){[>][<|0 0 0 1|]CC([>|0 0 1 0|])c1ccccc1, [<|0 1 0 0|]CC([>|1 0 0 0|])C(=O)OC [<]}|schulz_zimm(600, 500)|[Br]",
    "CCOC(=O)C(C)(C){[>][<]CC([>])c1ccccc1 [<]}|schulz_zimm(500,400)|{[>][<]CC([>])C(=O)OC[<]}|schulz_zimm(500, 400)|[Br]",
    "{[][<1]CC([>1])c1ccccc1, [<2]CC([>2])C(=O)OC; CC(C)[>1|2|], CC(C)[>2], [<1|2|][Br], [<2][Br][]}|schulz_zimm(700, 600)|",
    "C{[>][<]CC(C)[>][<]}|poisson(200)|[H]",
    "C{[>][<|3|]CC(C)[>|3|], [<]CC(CC)[>] [<]}|poisson(200)|[H]",
    "N#CC(C)(C){[$][$]CC(C(=O)OC)[$][$]}|poisson(300)|{[$][$]CC(C(=O)OC)[$][$]}|poisson(300)|C(C)(C)C#N",
    "{[][<]C(=O)CCCCC(=O)[<],[>]NCCCCCCN[>]; [<][H], [>]O []}|flory_schulz(4e-3)|",
    "O{[>][<]C(=O)CCCCC(=O)[<],[>]NCCCCCCN[>]; [<][H], [>]NCCCCCCN[H] []}|flory_schulz(5e-3)|",
    "N#CC(C)(C){[$] O([<|3|])(C([$])C[$]), [>]CCO[<|0 0 0 1 0 2|] ; [>][H] [$]}|poisson(300)|Br",
    "[H]{[$] [$]C(C[<])(C[<])(C[<]), [>]CC[<]; [>][H] []}|gauss(300, 80)|",
    "[H]{[$][$]C(C[<])(C[<])(C[<2]), [>]CC[<], [>2]OCO[<2]; [>][H], [>2]O []}|gauss(300, 80)|",
    "[H]{[$] [$]C(C[<])(C[<])(C[<2|2|]), [>]CC[<], [>2|2|]OCO[<2|2|]; [>][H], [>2]O []}|gauss(400, 100)|",
    "C{[$] [$]C(CC[<])C[$2|0|], [>]CC[<]; [>][H] [$2]}|uniform(100,101)|C{[$] [$]C(CC[<])C[$2|0|], [>]CC[<]; [>]O [$2]}|schulz_zimm(200,150)|C{[$] [$|0|]C(CC[<])C[$|0|], [>]CC[<]; [>]C(=O) [$]}|gauss(300,30)|[Br]",
    "C{[$][$]CC(CC[$])(CC[$]),[$]CC[$]; [$][H][$]}|flory_schulz(1e-2)|[H]",
    "C{[$][$|.1|]CC(CC[$|.1|])(CC[$|.1|]),[$]CC[$]; [$][H][$]}|flory_schulz(1e-2)|[H]",
    "C{[$][$]CC([$])[$],[$]CC[$]; [$][H][$]}|flory_schulz(1e-2)|[H]",
    "[H]{[>] [<]CC([>])c1ccccc1 [<]}|gauss(500, 100)|[H]",
    "{[] [<]CC([>|40 0 1 0|])c1ccccc1 ; [<|0|][H], [>]N []}|gauss(500, 100)|",
    "{[][<]CC([>])c1ccccc1; CCOC(=O)C(C)(C)[>], CC(CN)[>] [<]}|schulz_zimm(500, 400)|[Br]",
    "{[][<]CC([>])c1ccccc1; CCOC(=O)C(C)(C)[>|10|], CC(CN)[>] [<]}|schulz_zimm(500, 400)|[Br]",
    "{[][<]C(N)C[>]; [<][H], [>]CO []}|uniform(100, 200)|",
    "[H]{[<][<]C(N)C[>]; [>]CO []}|uniform(100, 200)|",
    "[H]{[<][<]C(N)C[>][>]}|uniform(100, 200)|CO",
    "{[][<]C(N)C[>]; [<][H][>]}|uniform(100, 200)|{[<][<]C(=O)C[>]; [>][H][]}|uniform(100, 200)|",
    "OCC{[<][<]C(N)C[>] [>]}|gauss(100, 20)|{[<][<]C(=O)C[>]; [>]}|gauss(100, 20)|[Si]",
    "OCC{[<][<]C(N)C[>] [>]}|flory_schulz(0.1)|CC[Si]CC{[<][<]C(=O)C[>]; [>]}|flory_schulz(0.1)|[Si]",
    "OCC{[<][<]C(N)C[>], [<]CC(C(=O)C[<])[>] ;[H][>] [>]}|gauss(150, 30)|CC[Si]",
    "[H]{[>]CC([>])(C[<])C(=O)OCC(O)CSc1c(F)c(F)c(F)c(F)c1F[<]}|gauss(600, 100)|CC{[>][<]CC([>])c1ccccc1[<]}|gauss(300, 50)|C(C)CC(c1ccccc1)c1ccccc1",
    "{[]CC([>])(C[<])C(=O)OCC(O)CSc1ccc(F)c(F)c1, CC([>])(C[<])C(=O)OCC(O)CSC(F)(F)F; [>][N][<]}|gauss(800, 100)|{[>][<]CC([>])c1ccccc1; [>]N, [<][H][]}|schulz_zimm(400, 300)|",
    "{[]CC([>])(C[<])C(=O)OCC(O)CSc1c(F)cccc1F, CC([>])(C[<])C(=O)OCC(O)CSC(F)(F)F; [>][H], [<][H][]}|gauss(800, 50)|",
    "{[][$|3 4 5 6 0 8|]C([$|4.0|])C=O,[$|6.0|]CC([$|10.1|])CO;[$][H], [$]O[]}|flory_schulz(2e-2)|",
    "C{[>][<]C[C@H](C)[>][<]}|poisson(200)|[H]",
    "C{[>][<|0 0 0 1|]C[C@H](C)[>|0 0 1 0|], [<|0 1 0 0|]C[C@@H](C)[>|1 0 0 0|] [<]}|poisson(200)|[H]",
    "C{[>][<|3|]C[C@H](C)[>|3|], [<]C[C@@H](C)[>] [<]}|poisson(200)|[H]",
]


# ---------------------------------------------------------------------------------------------
# systems (mixtures)
SOLVENTS = ["CCO", "C1CCOC1", "CCCCC", "O", "CC(=O)C", "c1ccccc1C", "ClC(Cl)Cl", "CN(C)C=O", "CS(=O)C"]


def _small_polymer(rnd, cfg):
    """a short chain component (1-6 units) so that ensembles of a few dozen members stay cheap"""
    kind = rnd.choice(["linear", "linear", "closed", "dollar", "two_block", "archetype"])
    if cfg.get("allow_selfclose") and rnd.random() < 0.12:
        kind = "selfclose"
    fam = cfg.get("family")
    if kind == "archetype":
        c = dict(cfg)
        c["branchy"] = True
        c["allow_illposed"] = False
        text, tags = gen_molecule(rnd, c)
        return text, tags
    u = rnd.choice(UNITS2)[0]
    n = rnd.choice([1, 2, 3, 5])
    dist, f = make_dist(rnd, unit_mass(u), n, fam, cfg.get("safe_dist", False))
    if kind == "selfclose":
        # a chain stopper among the repeat units (mono-functional unit): the object may close the chain although a suffix follows.
        # The library then refuses the member (RuntimeError at the hand-over); what it must never do is hand out the truncated chain
        stop = rnd.choice(["F", "Cl", "OC", "C#N"])
        w = rnd.choice(["", "|0.2|", "|0.05|", "|1|"])
        if rnd.random() < 0.5:
            return (rnd.choice(PLAIN) + "{[>]" + u.format("[<]", "[>]") + ", [<%s]%s [<]}" % (w, stop) + dist + rnd.choice(PLAIN_SUFFIX),
                    {"arch:sys_selfclose", "family:" + f})
        return (rnd.choice(PLAIN) + "{[$]" + u.format("[$]", "[$]") + ", [$%s]%s [$]}" % (w, stop) + dist + rnd.choice(PLAIN_SUFFIX),
                {"arch:sys_selfclose", "family:" + f})
    if kind == "linear":
        return rnd.choice(PLAIN) + "{[>]" + u.format("[<]", "[>]") + "[<]}" + dist + rnd.choice(PLAIN_SUFFIX), {"arch:sys_linear", "family:" + f}
    if kind == "closed":
        return ("{[]" + u.format("[<]", "[>]") + "; " + rnd.choice(ENDS)[0].format("[<]") + ", " + rnd.choice(ENDS)[0].format("[>]") + "[]}"
                + dist), {"arch:sys_closed", "family:" + f}
    if kind == "dollar":
        return ("{[]" + u.format("[$]", "[$]") + "; " + rnd.choice(ENDS)[0].format("[$]") + "[]}" + dist), {"arch:sys_dollar", "family:" + f}
    u2 = rnd.choice(UNITS2)[0]
    dist2, f2 = make_dist(rnd, unit_mass(u2), rnd.choice([1, 2, 3]), fam, cfg.get("safe_dist", False))
    return (rnd.choice(PLAIN) + "{[>]" + u.format("[<]", "[>]") + "[<]}" + dist + "{[>]" + u2.format("[<]", "[>]") + "[<]}" + dist2
            + rnd.choice(PLAIN_SUFFIX)), {"arch:sys_two_block", "family:" + f, "family:" + f2}


def _deterministic_polymer(rnd, max_units=40):
    """chain whose molecular mass is the same in every generation (zero-width law): composition is then exact"""
    u = rnd.choice(UNITS2)[0]
    n = rnd.choice([k for k in (1, 2, 4, 8, 20, 40) if k <= max_units])
    m = unit_mass(u)
    target = m * (n - 0.5)
    return "C{[>]" + u.format("[<]", "[>]") + "[<]}|gauss(%r, 0)|C" % round(target, 4), {"arch:sys_deterministic_chain"}


def _pct(rnd, p):
    if p == 0:
        return rnd.choice(["0", "0.0", "0.", "0e0"])
    return repr(p)


def gen_system(rnd, cfg=None, deterministic_mass=False, min_components=1):
    """(text, tags, system_molweight or None, approx mean masses)."""
    cfg = cfg or {}
    n = rnd.choice([c for c in [1, 2, 2, 3, 4] if c >= min_components])
    comps = []
    tags = {f"components:{n}"}
    for i in range(n):
        if rnd.random() < (0.5 if n > 1 else 0.15):
            comps.append((rnd.choice(SOLVENTS), {"arch:sys_solvent"}))
        elif deterministic_mass:
            comps.append(_deterministic_polymer(rnd, cfg.get("max_units", 40)))
        else:
            comps.append(_small_polymer(rnd, cfg))
    zero_at = None
    if cfg.get("allow_zero_mass") and n >= 2 and rnd.random() < 0.07:
        # a component without heavy atoms (molecular hydrogen / deuterium): it is picked like any other and adds nothing to the
        # accumulated heavy-atom mass, so iteration must simply carry on
        zero_at = rnd.randrange(n)
        comps[zero_at] = (rnd.choice(["[H][H]", "[H][H]", "[2H][2H]"]), {"arch:sys_zero_mass_component"})
    for _, t in comps:
        tags |= set(t)
    # rough member masses to size the system
    from rdkit import Chem
    from rdkit.Chem import Descriptors

    def approx(text):
        m = Chem.MolFromSmiles(text) if "{" not in text else None
        return Descriptors.HeavyAtomMolWt(m) if m is not None else 250.0

    sizes = [approx(t) for t, _ in comps]
    members = rnd.choice([0.4, 2, 4, 8, 15, 30])  # 0.4: the very first member already exceeds the system mass
    total = max(sizes) * members
    form = rnd.choice(["abs", "abs", "pct", "sysarg", "unspecified_last"]) if n > 1 else rnd.choice(["abs", "abs", "sysarg"])
    raw = [rnd.choice([0.05, 1, 1, 2, 5, 9, 20]) for _ in range(n)]
    if zero_at is not None:
        raw[zero_at] = rnd.choice([5, 20, 60])
        if max(sizes) <= 0:
            return gen_system(rnd, cfg, deterministic_mass, min_components)
    if n >= 3 and form in ("pct", "sysarg", "unspecified_last") and rnd.random() < 0.3:
        # a component declared with exactly 0 % (valid: it is simply never generated)
        k0 = rnd.randrange(n - 1)
        if k0 != zero_at:
            raw[k0] = 0.0
            tags.add("mix:zero_percent")
    fr = [r / sum(raw) for r in raw]
    text = ""
    sysw = None
    if form == "abs":
        for (t, _), f in zip(comps, fr):
            text += t + ".|%s|" % _f_mix(rnd, round(total * f, 2))
        tags.add("mix:absolute")
    elif form == "pct":
        # n-1 percentages and one absolute mass (its percentage is inferred)
        k_abs = rnd.randrange(n)
        pcts = [round(100 * f, 1) for f in fr]
        pcts[k_abs] = round(100 - sum(p for i, p in enumerate(pcts) if i != k_abs), 1)
        if pcts[k_abs] <= 0:
            return gen_system(rnd, cfg, deterministic_mass, min_components)
        if pcts[k_abs] < 0.05 and "mix:zero_percent" in tags:
            return gen_system(rnd, cfg, deterministic_mass, min_components)
        for i, (t, _) in enumerate(comps):
            if i == k_abs:
                text += t + ".|%s|" % _f_mix(rnd, round(total * pcts[i] / 100.0, 2))
            else:
                text += t + ".|%s%%|" % _pct(rnd, pcts[i])
        tags.add("mix:percent")
    elif form == "unspecified_last":
        # every component but the last carries a percentage, the last one nothing: its share is the remainder, the caller
        # supplies the system mass
        pcts = [round(100 * f, 1) for f in fr]
        pcts[-1] = round(100 - sum(pcts[:-1]), 1)
        if pcts[-1] <= 0:
            return gen_system(rnd, cfg, deterministic_mass, min_components)
        for (t, _), p_ in zip(comps[:-1], pcts[:-1]):
            text += t + ".|%s%%|" % _pct(rnd, p_)
        text += comps[-1][0]
        sysw = round(total, 1)
        tags.add("mix:unspecified_last")
    else:
        if n == 1:
            text = comps[0][0] + ".|100%|"
        else:
            pcts = [round(100 * f, 1) for f in fr]
            pcts[-1] = round(100 - sum(pcts[:-1]), 1)
            if pcts[-1] <= 0:
                return gen_system(rnd, cfg, deterministic_mass, min_components)
            for (t, _), p in zip(comps, pcts):
                text += t + ".|%s%%|" % _pct(rnd, p)
        sysw = round(total, 1)
        tags.add("mix:system_mass_argument")
    return text, tags, sysw


# systems that are NOT generable although their total mass is known: one component cannot be generated
# (stochastic object without distribution, negative weight); iteration must refuse, whatever the random choices
NON_GENERABLE_KNOWN_MASS = [
    ("CCO.|95|N{[$][$]CC[$][$]}O.|5|", None),
    ("CCO.|60%|CCN.|39.5%|N{[>][<]CC[>][<]}O", 300.0),
    ("CCO.|99%|C{[>][<|-1|]CC[>][<]}|gauss(50, 5)|C.|300|", None),
    ("C{[>][<]CC[>][<]}C.|200|", None),
    ("CCCCC.|500|O{[>][<]CCO[>][<]}[H].|0.5|", None),
]
# systems the library calls generable (mass known) in which one component can never be completed: its molecules keep an open
# descriptor (open right terminal without suffix, a lone token with a descriptor).  Iteration may refuse (raise) when that
# component comes up; it must never yield an incomplete molecule and never end silently short of the system mass.
OPEN_ENDED_COMPONENTS = ["OC{[$][$]CC[$][$]}|uniform(40, 80)|", "C{[>][<]CC[>][<]}|gauss(80, 10)|", "CC[$]", "[<]CC[>]",
                         "{[][<]CCO[>]; [<]C[>]}|poisson(60)|", "N{[$][$]CC(C)[$], [$]CO[$][$]}|flory_schulz(0.05)|",
                         # ... whose open descriptor has weight 0 (a 'dormant' end is still an open end)
                         "CC[$|0|]", "[<|0|]CC[>|0.0|]", "[H]{[>][<]CC([>])c1ccccc1[<]}|gauss(300, 30)|[<]CC[>|0|]",
                         "C{[$] [$]C(CC[<])C[$2|0|], [>]CC[<]; [>][H] [$2]}|uniform(100, 101)|", "OC{[$][$|0|]CC[$|0|][$]}|uniform(40, 80)|"]
CLOSED_COMPONENTS = ["CCO", "CCCC", "O", "C{[>][<]CC[>][<]}|gauss(80, 10)|C", "{[][<]CCO[>]; [<]C, [>]F[]}|poisson(60)|", "c1ccccc1C"]


def gen_open_ended_system(rnd):
    n_closed = rnd.choice([0, 1, 1, 2])
    comps = [rnd.choice(OPEN_ENDED_COMPONENTS)] + [rnd.choice(CLOSED_COMPONENTS) for _ in range(n_closed)]
    rnd.shuffle(comps)
    masses = [float(rnd.choice([50, 100, 300, 500, 1000])) for _ in comps]
    text = "".join(c + ".|%s|" % _f_mix(rnd, m) for c, m in zip(comps, masses))
    return text, sum(masses)


NON_GENERABLE_SYSTEMS = [
    "CCO",
    "CCO.|50%|CC",
    "CCO.|20%|C{[>][<]CC[>][<]}|gauss(100, 10)|C.|30%|O",
    "C{[>][<]CC[>][<]}|gauss(100, 10)|C",
    "CCO.|20%|CC.|80%|",
]


def token_budget_ok(system_text, limit=24):
    """The library labels residues with one of 26 letters (a bound of the implementation, stated in DESIGN.md): keep the
    number of residue ids a system consumes (tokens + re-created prefix / connector tokens) below it."""
    from . import reader
    from .notation import Tok

    try:
        ast = reader.read_system(system_text)
    except Exception:
        return False
    n = 0
    for m in ast.mols:
        for e in m.elements:
            if isinstance(e, Tok):
                n += 1 + (1 if any(not d.explicit for d in e.descs) else 0) + 1
            else:
                n += len(e.repeats) + len(e.ends)
    return n <= limit
