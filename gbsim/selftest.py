"""./check selftest [--setup|--determinism N|--sensitivity]

--setup        import check + a short determinism test (what MANIFEST.setup_cmd runs)
--determinism  N run seeds per claimed property, each executed twice in different worker processes, at two worker counts,
               and once more in fresh interpreters under another PYTHONHASHSEED; event-log digests must be identical
--sensitivity  apply each patch of /verif/mutants to a scratch copy of the repository and require the named check to fail
"""
import json
import os
import subprocess
import sys
import time

from . import boot, runner

CLAIMED = ["C04", "C05", "C06", "C07", "C08"]


def claimed():
    try:
        with open(os.path.join(runner.ROOT, "MANIFEST.json")) as fh:
            return [c["property_id"] for c in json.load(fh)["checks"]]
    except Exception:
        return CLAIMED


def _digest_worker(args):
    pid, run_seed, tier = args
    mod = runner.prop_module(pid)
    spec = mod.spec_from_seed(run_seed, tier)
    res = runner.isolated_execute(mod, spec)
    return (pid, run_seed, res.get("digest"), len(res.get("violations", [])), res.get("harness_error"))


def digests(pids, n, base, njobs, tier="quick"):
    import concurrent.futures as cf
    import multiprocessing as mp

    tasks = [(p, runner.derive_seed(base, p, i), tier) for p in pids for i in range(n)]
    out = {}
    if njobs <= 1:
        for t in tasks:
            r = _digest_worker(t)
            out[(r[0], r[1])] = r[2:]
        return out
    with cf.ProcessPoolExecutor(max_workers=njobs, mp_context=mp.get_context("fork")) as ex:
        for r in ex.map(_digest_worker, tasks, chunksize=4):
            out[(r[0], r[1])] = r[2:]
    return out


def determinism(n, base=777, fresh=True, out=sys.stdout):
    boot.load()
    pids = claimed()
    t0 = time.time()
    a = digests(pids, n, base, runner.jobs())
    b = digests(pids, n, base, 3)
    bad = [k for k in a if a[k] != b[k]]
    herr = [k for k in a if a[k][2]]
    print(f"[selftest] determinism: {len(a)} run seeds x 2 executions ({runner.jobs()} and 3 workers): {len(bad)} digest mismatches, "
          f"{len(herr)} harness errors, {time.time() - t0:.1f}s", file=out)
    if fresh:
        env = dict(os.environ)
        env["PYTHONHASHSEED"] = "1234"
        env["GBSIM_NO_REEXEC"] = "1"
        code = ("import sys,json; sys.path.insert(0,%r); from gbsim import selftest, boot; boot.load(); "
                "d=selftest.digests(%r,%d,%d,4); print(json.dumps([[k[0],k[1],v[0]] for k,v in d.items()]))"
                % (runner.ROOT, pids, max(4, n // 4), base))
        p = subprocess.run([sys.executable, "-c", code], capture_output=True, text=True, env=env, timeout=1800)
        try:
            rows = json.loads([l for l in p.stdout.splitlines() if l.startswith("[[")][-1])
        except Exception:
            print(f"[selftest] fresh interpreter failed: {p.stdout[-300:]} {p.stderr[-500:]}", file=out)
            return 2
        bad2 = [(r[0], r[1]) for r in rows if a.get((r[0], r[1]), (None,))[0] != r[2]]
        print(f"[selftest] fresh interpreter PYTHONHASHSEED=1234: {len(rows)} run seeds re-executed, {len(bad2)} digest mismatches", file=out)
        bad += bad2
    for k in bad[:10]:
        print(f"  NONDETERMINISM {k}", file=out)
    return 2 if bad or herr else 0


def main(args):
    if not args or args[0] == "--setup":
        g = boot.load()
        import networkx  # noqa
        import numpy  # noqa
        import rdkit  # noqa
        import scipy  # noqa

        print(f"[selftest] gbigsmiles imported from {os.path.dirname(g.__file__)}")
        return determinism(6, fresh=True)
    if args[0] == "--determinism":
        n = int(args[1]) if len(args) > 1 else 150
        return determinism(n)
    if args[0] == "--sensitivity":
        from . import mutants

        return mutants.main(args[1:])
    print(__doc__)
    return 2
