"""One simulated generation: parse the text with the real parser, generate under a SimRng,
audit the event stream with the reference model."""
import signal
import traceback

from . import boot, reader
from .model import GenAudit
from .seams import DrawDiverges, World
from .simrng import BudgetExceeded, Scheduler, SimAbort, SimRng
from . import refdist


class WallTimeout(SimAbort):
    pass


def _alarm(signum, frame):
    raise WallTimeout("wall-clock watchdog fired")


class RunOutcome:
    def __init__(self):
        self.text = None
        self.tags = []
        self.violations = []
        self.result = None
        self.exc = None
        self.exc_tb = None
        self.phase = None
        self.world = None
        self.audit = None
        self.sched = None
        self.smiles = None
        self.mass = None
        self.draw_failed = False
        self.harness_error = None
        self.mol_obj = None

    def summary(self):
        return {
            "text": self.text,
            "violations": self.violations,
            "exc": None if self.exc is None else repr(self.exc)[:300],
            "phase": self.phase,
            "smiles": self.smiles,
        }


def draw_ctx_factory(cap_mass):
    def fn(dist_obj):
        try:
            rd = refdist.from_text(str(dist_obj))
        except Exception:
            return None
        if rd is None or cap_mass is None:
            return None
        try:
            ucap = rd.cdf(cap_mass)
        except Exception:
            return None
        if ucap >= 1 - 1e-9:
            return {"u_cap": None}
        return {"u_cap": max(ucap, 1e-6)}

    return fn


def run_molecule(text, sched_kwargs, props=("C04", "C05", "C06", "C07", "C08"), embed="stub", embed_fault_at=None,
                 forced_draws=None, cap_mass=None, wall=150, expect_complete=True, ast=None, keep_world=True, sched_obj=None, draw_ctx_fn=None, reuse_obj=None, entry="molecule",
                 pre_generate_seed=None):
    """Generate one molecule from `text` under the simulator.  Returns RunOutcome."""
    g = boot.load()
    out = RunOutcome()
    out.text = text
    try:
        if ast is None:
            ast = reader.read_molecule(text).build()
    except Exception as exc:
        out.harness_error = f"reader failed on workload text: {exc!r}"
        return out
    sched = sched_obj if sched_obj is not None else Scheduler(**sched_kwargs)
    out.sched = sched
    world = World(sched, embed=embed, embed_fault_at=embed_fault_at)
    world.forced_draws = forced_draws
    world.draw_ctx_fn = draw_ctx_fn if draw_ctx_fn is not None else draw_ctx_factory(cap_mass)
    out.world = world
    old = signal.signal(signal.SIGALRM, _alarm)
    signal.alarm(wall)
    try:
        with world:
            out.phase = "parse"
            try:
                # `reuse_obj`: generate again from an object parsed earlier (repeated generation from one parsed molecule)
                if reuse_obj is not None:
                    mol = reuse_obj
                elif entry == "stochastic":
                    # README: a stochastic object with empty terminals can be used directly (user-facing class)
                    mol = g.Stochastic(text, 0)
                else:
                    mol = g.Molecule(text)
            except SimAbort:
                raise
            except Exception as exc:
                out.exc = exc
                out.exc_tb = traceback.format_exc()
                return out
            if entry == "mirror":
                # the caller's AST is the mirrored one (notation.mirror_ast); a molecule with fewer than two elements has no mirror
                if pre_generate_seed is not None:
                    # the original has been used before its mirror is taken (whatever it remembers is copied into the mirror)
                    try:
                        import numpy as np

                        mol.generate(rng=np.random.default_rng(pre_generate_seed))
                    except SimAbort:
                        raise
                    except Exception:
                        pass
                    if pre_generate_seed % 2 == 0:
                        try:
                            mol.gen_reaction_graph()  # ... and has had its reaction graph built
                        except Exception:
                            pass
                try:
                    mol = mol.gen_mirror()
                except SimAbort:
                    raise
                except Exception as exc:
                    out.exc = exc
                    out.exc_tb = traceback.format_exc()
                    return out
                if mol is None:
                    out.harness_error = "gen_mirror() returned None for a molecule with several elements"
                    return out
            out.mol_obj = mol
            staged = None
            if entry == "staged":
                # the user-level way of building a molecule block by block: the copies handed out by Molecule.elements are
                # generated one after the other, each receiving the previous result as prefix, and the intermediate result is
                # looked at in between (mass, SMILES, open descriptors), as somebody logging the growth would
                staged = mol.elements
                residues = [r for e in staged for r in e.residues]
            else:
                residues = mol.residues
            ast_res = ast.residues()
            audit = GenAudit(ast, ast_res, props=props, expect_complete=expect_complete)
            out.audit = audit
            if len(residues) != len(ast_res):
                audit.viol("C05", "parse_residue_count", f"parser found {len(residues)} tokens, the string has {len(ast_res)}")
                out.violations = audit.violations
                return out
            world.register_tokens(residues, list(range(len(residues))))
            world.hooks.append(audit)
            rng = SimRng(sched)
            out.phase = "generate"
            gen_start = len(world.log)  # (a generation that preceded the audited one, e.g. before a mirror was taken, is not judged)
            try:
                import contextlib
                import io

                with contextlib.redirect_stdout(io.StringIO()):  # the library prints debug output on some error paths
                    if staged is not None:
                        res = None
                        for element in staged:
                            res = element.generate(res, rng)
                            try:
                                _ = (float(res.weight), res.smiles, res.fully_generated, len(res.bond_descriptors))
                            except SimAbort:
                                raise
                            except Exception:
                                pass
                    else:
                        res = mol.generate(rng=rng)
                out.result = res
            except (BudgetExceeded, DrawDiverges, WallTimeout) as exc:
                out.exc = exc
            except SimAbort:
                raise
            except BaseException as exc:
                out.exc = exc
                out.exc_tb = traceback.format_exc()
            out.draw_failed = any(e["k"] == "draw_fail" for e in world.log[gen_start:]) or isinstance(out.exc, DrawDiverges)
            out.phase = "audit"
            audit.finish(out.result, out.exc)
            if out.result is not None:
                try:
                    out.smiles = out.result.smiles
                    out.mass = float(out.result.weight)
                except Exception as exc:
                    out.smiles = None
            out.violations = audit.violations
    finally:
        signal.alarm(0)
        signal.signal(signal.SIGALRM, old)
    return out
