"""Reference model for generation, evaluated against the event stream of a real run.

The model is built from the AST (reader.py / notation.py), never from gbigsmiles parser
output.  `GenAudit` is hooked into a World; it sees every decision, new-instance, copy,
attach and draw event together with the live objects and produces violations tagged with
the property (C04..C08) and an invariant id.

Decisions are explained locally, keyed on attach events: the decisions pending before an
attach must end with (open pick, partner pick) computed from the AST for the live open
list; earlier pending decisions must be stand-alone picks (start end group, terminal
reservation, component pick).  Matching is by content (option count, probability vector,
probability of the option taken), not by position in the call sequence, so both "finalise a
copy after every step" and "finalise once" are accepted.
"""
import math

from rdkit import Chem

from .notation import ORDER_BT, Desc, Stoch, Tok, compatible, weights_rule

P_ABS = 1e-12
P_REL = 1e-9


def peq(a, b):
    return abs(a - b) <= P_ABS + P_REL * max(abs(a), abs(b))


def vec_eq(a, b):
    return len(a) == len(b) and all(peq(x, y) for x, y in zip(a, b))


class Template:
    def __init__(self, kind, probs, chosen=None, labels=None):
        self.kind = kind
        self.probs = list(probs)
        self.chosen = chosen
        self.labels = labels

    def trivial(self):
        return len(self.probs) == 1

    def match(self, dec):
        """'strict' | 'permuted' | None"""
        p = dec["p"]
        if len(p) != len(self.probs):
            return None
        if vec_eq(p, self.probs) and (self.chosen is None or dec["i"] == self.chosen):
            return "strict"
        if vec_eq(sorted(p), sorted(self.probs)) and self.chosen is not None and peq(p[dec["i"]], self.probs[self.chosen]):
            # same law, options enumerated in another order
            if not vec_eq(p, self.probs):
                return "permuted"
        return None

    def describe(self):
        return {"kind": self.kind, "p": [round(x, 12) for x in self.probs], "chosen": self.chosen}


def get_rdmol(mg):
    try:
        return mg.mol
    except Exception:
        m = getattr(mg, "_mol", None)
        if m is None:
            raise
        return m


class GenAudit:
    def __init__(self, ast_mol, residues, props=("C04", "C05", "C06", "C07", "C08"), extra_standalone=None,
                 expect_complete=True):
        self.ast = ast_mol
        self.residues = residues  # list of Tok in residue order (token keys index into it)
        self.elem_of = ast_mol.element_of()
        self.props = set(props)
        self.violations = []
        self.inst = {}  # uid -> {"tok": Tok, "elem": (ei, role, k)}
        self.pending = []
        self.snapshots = []  # (element index, [desc views]) most recent last
        self.copy_snapshots = []  # open lists at the moment a MolGen was deep-copied (start of a finalisation)
        self.extra_standalone = extra_standalone or []
        self.draws = []
        self.atts = []  # processed attach records
        self.used = {}  # obj id -> set of used tags (lineage aware through copies)
        self.probes = {}
        self.expect_complete = expect_complete
        self.n_dec = 0
        self.n_dec_multi = 0
        self.started = set()  # elements for which a start pick was explained
        self.sig = []  # schedule signature (decision kind, #options, class chosen)
        self.explained = []  # partner-type decisions with their options, for C16's trace validation

    # ------------------------------------------------------------------
    def probe(self, name, n=1):
        self.probes[name] = self.probes.get(name, 0) + n

    def viol(self, prop, inv, msg, ev=None, **extra):
        if prop not in self.props:
            return
        v = {"property": prop, "invariant": inv, "msg": msg, "seq": None if ev is None else ev.get("s")}
        v.update(extra)
        self.violations.append(v)

    # -- AST lookups ---------------------------------------------------
    def ast_desc(self, view):
        uid, k = view["tag"]
        rec = self.inst.get(uid)
        if rec is None or k < 0 or k >= len(rec["tok"].descs):
            return None
        return rec["tok"].descs[k]

    def elem_index(self, view):
        rec = self.inst.get(view["tag"][0])
        return None if rec is None else rec["elem"][0]

    def eff(self, view, cur_ei):
        """Effective (weight, transitions) of a live open descriptor while element cur_ei grows:
        a descriptor carried in from an earlier element takes the left terminal's weight / list."""
        d = self.ast_desc(view)
        if d is None:
            return None
        ei = self.elem_index(view)
        cur = self.ast.elements[cur_ei]
        if ei is not None and ei < cur_ei and isinstance(cur, Stoch) and cur.left.sym != "":
            return Desc(sym=d.sym, did=d.did, order=d.order, weight=cur.left.weight, trans=cur.left.trans)
        return d

    # -- event hook ------------------------------------------------------
    def __call__(self, ev, live):
        k = ev["k"]
        if k == "dec":
            if ev.get("in_draw"):
                return
            if ev["kind"] != "choice":
                self.viol("C08", "unmodelled_real_decision", f"real-valued decision {ev['kind']} outside a draw", ev)
                return
            self.n_dec += 1
            if sum(1 for x in ev["p"] if x > 0) > 1:
                self.n_dec_multi += 1
            self.pending.append(ev)
        elif k == "new":
            key = ev["tok"]
            if key is None or key >= len(self.residues):
                self.viol("C05", "unknown_token", f"residue instance built from a token that is not in the string: {ev['text']}", ev)
                return
            tok = self.residues[key]
            self.inst[ev["uid"]] = {"tok": tok, "elem": self.elem_of[id(tok)], "na": ev["na"]}
            self.used[ev["obj"]] = set()
            if tok.natoms != ev["na"]:
                self.viol("C05", "fragment_atom_count", f"fragment of {tok.name} has {ev['na']} atoms, notation has {tok.natoms}", ev)
        elif k == "copy":
            self.used[ev["dst"]] = set(self.used.get(ev["src"], ()))
            # a finalisation works on a copy: remember the open list it starts from (terminal reservations are explained
            # against it, however many capping attaches of an earlier, discarded finalisation lie in between)
            try:
                from .seams import desc_view

                views = [desc_view(b) for b in live["src"].bond_descriptors]
                ei = self.atts[-1]["ei"] if self.atts else None
                if ei is not None:
                    self.copy_snapshots.append((ei, views))
                    if len(self.copy_snapshots) > 3:
                        self.copy_snapshots.pop(0)
            except Exception:
                pass
        elif k == "draw":
            self.draws.append(ev)
        elif k == "att":
            self.on_att(ev, live)
        elif k == "att_fail":
            self.on_att_fail(ev, live)

    # -- attach ----------------------------------------------------------
    def on_att_fail(self, ev, live):
        self.probe("attach_raised")
        self.pending.clear()

    def on_att(self, ev, live):
        si, oi = ev["si"], ev["oi"]
        pre_self, pre_other = ev["pre_self"], ev["pre_other"]
        vs, vo = pre_self[si], pre_other[oi]
        ds, do = self.ast_desc(vs), self.ast_desc(vo)
        other_uid = vo["tag"][0]
        rec = self.inst.get(other_uid)
        if ds is None or do is None or rec is None:
            self.viol("C04", "untracked_descriptor", "attach used a descriptor that does not belong to a known residue instance", ev)
            self.pending.clear()
            return
        ei, role, _ = rec["elem"]
        tok = rec["tok"]
        # ---------------- C04 ------------------------------------------------
        used_s = self.used.setdefault(ev["obj"], set())
        used_o = self.used.setdefault(ev["oobj"], set())
        ts, to = tuple(vs["tag"]), tuple(vo["tag"])
        if ts in used_s or ts in used_o or to in used_o or to in used_s:
            self.viol("C04", "descriptor_reused", f"descriptor {ts if ts in used_s else to} had already formed a bond", ev)
        if not compatible(ds, do):
            self.viol("C04", "incompatible_pair",
                      f"bonded {ds.text()} of {self.inst[ts[0]]['tok'].name} with {do.text()} of {tok.name}", ev)
        self._check_bond(ev, live, vs, vo, ds, do)
        exp_open = sorted([tuple(v["tag"]) for i, v in enumerate(pre_self) if i != si]
                          + [tuple(v["tag"]) for i, v in enumerate(pre_other) if i != oi])
        got_open = sorted(tuple(v["tag"]) for v in ev["post"])
        if exp_open != got_open:
            self.viol("C04", "open_list_update", f"open descriptors after attach {got_open} != expected {exp_open}", ev)
        # the attached fragment itself stays the unmodified copy of its token it was (a caller may hold on to it): attaching
        # must not move its descriptors to other atoms / nodes or change their weights
        po = ev.get("post_other")
        if po is not None:
            def core(v):
                return (v["sym"], v["id"], v["bt"], v["w"], v["tr"], v["atom"], v["node"])

            if [core(v) for v in po] != [core(v) for v in pre_other]:
                # (C04: the fragment's remaining descriptors no longer sit on the atoms they were written on, so its next bond
                # joins an atom that never carried a descriptor; C05: the fragment is no longer an unmodified copy of its token)
                self.viol("C04", "attached_fragment_modified",
                          f"attach_other moved the remaining descriptors of the fragment of {tok.name} that was attached: they sat on atoms "
                          f"{[v['atom'] for v in pre_other]} and now claim atoms {[v['atom'] for v in po]}", ev)
                self.viol("C05", "attached_fragment_modified",
                          f"attach_other changed the fragment of {tok.name} that was attached: its descriptors were "
                          f"{[(v['sym'], v['atom'], v['node'], v['w']) for v in pre_other]} and are now {[(v['sym'], v['atom'], v['node'], v['w']) for v in po]}", ev)
        res_obj = ev.get("robj", ev["obj"])
        self.used[res_obj] = used_s | used_o | {ts, to}
        # ---------------- C08: explain pending decisions --------------------
        cls = self._explain(ev, pre_self, si, vs, ds, do, tok, ei, role, vo["tag"][1])
        rec_att = {"ev": ev, "cls": cls, "ei": ei, "role": role, "uid": other_uid, "tok": tok}
        self.atts.append(rec_att)
        self.snapshots.append((ei, ev["post"]))
        if len(self.snapshots) > 4:
            self.snapshots.pop(0)
        # probes
        if role == "end" and cls == "growth":
            self.probe("list_installed_end_group")
        if len(ev["post"]) == 0:
            self.probe("no_open_descriptor_after_attach")
        sites = {}
        for v in ev["post"]:
            sites[(v["tag"][0], self._site(v))] = sites.get((v["tag"][0], self._site(v)), 0) + 1
        if any(c > 1 for c in sites.values()):
            self.probe("two_descriptors_on_one_atom")

    def _site(self, view):
        d = self.inst.get(view["tag"][0])
        if d is None:
            return None
        k = view["tag"][1]
        return d["tok"].sites[k] if 0 <= k < len(d["tok"].sites) else None

    def _offset(self, inst_list, uid):
        for u, off, n in inst_list:
            if u == uid:
                return off
        return None

    def _check_bond(self, ev, live, vs, vo, ds, do):
        na_s, na_o = ev["na"]
        nb_s, nb_o = ev["nb"]
        if ev["na_post"] != na_s + na_o:
            self.viol("C04", "atom_count", f"attach produced {ev['na_post']} atoms from {na_s}+{na_o}", ev)
        if ev["nb_post"] != nb_s + nb_o + 1:
            self.viol("C04", "bond_count", f"attach produced {ev['nb_post']} bonds from {nb_s}+{nb_o}: not exactly one new bond", ev)
            return
        try:
            mol = get_rdmol(live["res"])
        except Exception as exc:  # pragma: no cover
            self.viol("C04", "no_molecule", f"cannot read molecule after attach: {exc!r}", ev)
            return
        cross = []
        for b in mol.GetBonds():
            i, j = b.GetBeginAtomIdx(), b.GetEndAtomIdx()
            if (i < na_s) != (j < na_s):
                cross.append((min(i, j), max(i, j), b.GetBondType()))
        off_s = self._offset(ev["inst_self"], vs["tag"][0])
        off_o = self._offset(ev["inst_other"], vo["tag"][0])
        site_s, site_o = self._site(vs), self._site(vo)
        if off_s is None or off_o is None or site_s is None or site_o is None:
            self.viol("C04", "untracked_instance", "descriptor's residue instance is not part of the molecule it is used on", ev)
            return
        want = (off_s + site_s, na_s + off_o + site_o)
        if len(cross) != 1:
            self.viol("C04", "new_bond_count", f"{len(cross)} bonds between the two parts after attach", ev)
            return
        a, b, bt = cross[0]
        if (a, b) != want:
            self.viol("C04", "bond_atoms", f"new bond joins atoms {(a, b)}, descriptors sit on {want} "
                      f"({self.inst[vs['tag'][0]]['tok'].name} / {self.inst[vo['tag'][0]]['tok'].name})", ev)
        if str(bt) != ORDER_BT.get(ds.order):
            self.viol("C04", "bond_order", f"new bond has order {bt}, descriptors prescribe {ORDER_BT.get(ds.order)}", ev)

    # -- templates ---------------------------------------------------------
    def t_open(self, views, cur_ei, chosen):
        ws = []
        for v in views:
            e = self.eff(v, cur_ei)
            ws.append(e.weight if e is not None else float("nan"))
        return Template("open_pick", weights_rule(ws), chosen)

    def t_partner_growth(self, dsel, stoch, tok, ordinal):
        if dsel.trans is not None:
            alld = stoch.all_descs()
            tr = list(dsel.trans)
            if len(tr) != len(alld):
                return None
            s = sum(tr)
            if s <= 0:
                return None
            probs = [x / s for x in tr]
            chosen = None
            for i, (t, k) in enumerate(alld):
                if t is tok and k == ordinal:
                    chosen = i
            if chosen is None:
                return None
            return Template("list_transition", probs, chosen, labels=list(alld))
        opts = [(t, k) for (t, k) in stoch.rbonds() if compatible(dsel, t.descs[k])]
        chosen = None
        for i, (t, k) in enumerate(opts):
            if t is tok and k == ordinal:
                chosen = i
        if chosen is None:
            return None
        return Template("partner_pick", weights_rule([t.descs[k].weight for t, k in opts]), chosen, labels=opts)

    def t_partner_cap(self, dsel, stoch, tok, ordinal):
        opts = [(t, k) for (t, k) in stoch.ebonds() if compatible(dsel, t.descs[k])]
        chosen = None
        for i, (t, k) in enumerate(opts):
            if t is tok and k == ordinal:
                chosen = i
        if chosen is None:
            return None
        return Template("cap_partner_pick", weights_rule([t.descs[k].weight for t, k in opts]), chosen, labels=opts)

    def t_handover(self, dprefix, tok, ordinal):
        opts = [k for k in range(len(tok.descs)) if compatible(dprefix, tok.descs[k])]
        if ordinal not in opts:
            return None
        return Template("handover_pick", weights_rule([tok.descs[k].weight for k in opts]), opts.index(ordinal), labels=[(tok, k) for k in opts])

    def standalone_templates(self):
        out = list(self.extra_standalone)
        for ei, e in enumerate(self.ast.elements):
            if isinstance(e, Stoch) and e.left.sym == "" and e.ebonds():
                out.append(Template("start_pick", weights_rule([t.descs[k].weight for t, k in e.ebonds()]), None))
        for ei, views in list(reversed(self.copy_snapshots)) + list(reversed(self.snapshots)):
            e = self.ast.elements[ei]
            if isinstance(e, Stoch) and e.right.sym != "":
                inv = Desc(sym=e.right.sym, did=e.right.did, order=e.right.order)
                ws = []
                for v in views:
                    d = self.ast_desc(v)
                    if d is not None and compatible(inv, d):
                        ef = self.eff(v, ei)
                        ws.append(ef.weight)
                if ws:
                    out.append(Template("terminal_reservation", weights_rule(ws), None))
        return out

    def _consume(self, pending, templates):
        """Match templates (in order) against the tail of pending.  Returns number consumed or None."""
        pos = len(pending)
        kinds = []
        for t in reversed(templates):
            if pos > 0:
                m = t.match(pending[pos - 1])
                if m:
                    if m == "permuted":
                        self.probe("permuted_option_order")
                    pos -= 1
                    kinds.append(t.kind)
                    continue
            if t.trivial():
                self.probe("trivial_decision_elided")
                continue
            return None
        return len(pending) - pos

    def _explain(self, ev, pre_self, si, vs, ds, do, tok, ei, role, ordinal):
        elem = self.ast.elements[ei]
        cands = []
        if role == "tok":
            if len(pre_self) != 1:
                self.viol("C06", "handover_open_count", f"token attached to a prefix with {len(pre_self)} open descriptors", ev)
            th = self.t_handover(ds, tok, ordinal)
            if th is not None:
                cands.append(("handover", [th]))
        else:
            dsel = self.eff(vs, ei)
            topen = self.t_open(pre_self, ei, si)
            tg = self.t_partner_growth(dsel, elem, tok, ordinal)
            if tg is not None and (role == "rep" or tg.kind == "list_transition"):
                if tg.probs[tg.chosen] > 0:
                    cands.append(("growth", [topen, tg]))
            if role == "end":
                tc = self.t_partner_cap(dsel, elem, tok, ordinal)
                if tc is not None:
                    cands.append(("cap", [topen, tc]))
        cls = None
        matched = []
        for name, tpls in cands:
            n = self._consume(self.pending, tpls)
            if n is not None:
                matched.append((name, n, tpls))
        if matched:
            best = max(n for _, n, _ in matched)
            matched = [m for m in matched if m[1] == best]
            if len(matched) > 1:
                self.probe("ambiguous_growth_or_cap")
                # lineage hint: capping happens on copies (objects that were never copied afterwards);
                # resolved in finish() if needed.  Default: growth when the open descriptor carries a list.
            cls, n, tpls = matched[0]
            if len(matched) > 1:
                cls = "growth_or_cap"
            for t in tpls:
                self.sig.append((t.kind, len(t.probs), t.chosen))
            # remember partner-type decisions with the probability vector that was really handed to the generator
            consumed = self.pending[len(self.pending) - n:]
            last_t = tpls[-1]
            if last_t.labels is not None:
                obs = consumed[-1]["p"] if consumed and len(consumed[-1]["p"]) == len(last_t.probs) else list(last_t.probs)
                self.explained.append({"kind": last_t.kind, "cls": cls, "source": tuple(vs["tag"]), "source_elem": self.elem_index(vs),
                                       "elem": ei, "labels": last_t.labels, "p": list(obs), "chosen": last_t.chosen})
            del self.pending[len(self.pending) - n:]
        else:
            got = [{"n": d["n"], "p": [round(x, 12) for x in d["p"]], "i": d["i"]} for d in self.pending[-3:]]
            want = [[t.describe() for t in tpls] for _, tpls in cands]
            self.viol("C08", "decision_law",
                      f"decisions before attaching {tok.name} do not follow the notation: observed {got}, model {want}", ev)
            self.pending.clear()
            cls = cands[0][0] if cands else "unknown"
        # everything still pending must be a stand-alone pick
        self._flush_standalone(ev)
        return cls

    def _flush_standalone(self, ev):
        if not self.pending:
            return
        tpls = self.standalone_templates()
        for d in self.pending:
            ok = None
            for t in tpls:
                if t.match(d):
                    ok = t
                    break
            if ok is None:
                self.viol("C08", "unexplained_decision",
                          f"decision n={d['n']} p={[round(x, 12) for x in d['p']]} is no legal pick in the model "
                          f"(candidates {[t.describe() for t in tpls][:4]})", d)
            else:
                self.sig.append((ok.kind, len(ok.probs), d["i"]))
                self.probe("standalone:" + ok.kind)
        self.pending.clear()

    # -- end of a generation ------------------------------------------------
    def finish(self, result, exc):
        if exc is not None:
            # the decisions taken for a step that never completed cannot be judged (the exception itself is C06's business)
            self.pending.clear()
            return
        self._flush_standalone(None)
        if result is None:
            return
        final_uids = [u for (u, off, n) in getattr(result, "_gb_inst", [])]
        kept = set(final_uids)
        # resolve ambiguous growth/cap classification with the lineage: an end group attached on the
        # object line that later received a repeat unit is growth
        self._resolve_ambiguous(kept)
        if "C05" in self.props or "C06" in self.props:
            self.audit_product(result, kept)
        if "C07" in self.props:
            self.audit_stop_rule(result, kept)

    def _resolve_ambiguous(self, kept):
        kept_atts = [a for a in self.atts if a["uid"] in kept]
        for idx, a in enumerate(kept_atts):
            if a["cls"] == "growth_or_cap":
                later_growth = any(b["ei"] == a["ei"] and b["cls"] == "growth" for b in kept_atts[idx + 1:])
                a["cls"] = "growth" if later_growth else "cap"
        for a in self.atts:
            if a["cls"] == "growth_or_cap":
                a["cls"] = "cap"

    # -- C05 / C06 ------------------------------------------------------------
    def audit_product(self, result, kept):
        try:
            mol = result.mol
        except Exception as exc:
            self.viol("C05", "sanitise", f"generated molecule does not pass sanitisation: {exc!r}")
            return
        ledger = list(result._gb_inst)
        if any(u not in self.inst for (u, _, _) in ledger):
            # (e.g. the product was started before this audit began: two molecules built inside one observed call)
            self.viol("C05", "untracked_instance", "the product contains a residue instance whose creation was not part of this generation")
            return
        natoms = mol.GetNumAtoms()
        # partition
        cover = [None] * natoms
        for (u, off, n) in ledger:
            for a in range(off, off + n):
                if a >= natoms or cover[a] is not None:
                    self.viol("C05", "partition", f"atom {a} is not in exactly one residue instance")
                    return
                cover[a] = u
        if any(c is None for c in cover):
            self.viol("C05", "partition", "atoms outside every residue instance")
            return
        inst_off = {u: (off, n) for (u, off, n) in ledger}
        # per-instance isomorphism with the written token (atom order is the notation order)
        for (u, off, n) in ledger:
            tok = self.inst[u]["tok"]
            if n != tok.natoms:
                self.viol("C05", "instance_atoms", f"instance of {tok.name} has {n} atoms, token has {tok.natoms}")
                continue
            for i in range(n):
                a = mol.GetAtomWithIdx(off + i)
                z, q, iso, arom = tok.atoms[i]
                if (a.GetAtomicNum(), a.GetFormalCharge(), a.GetIsotope()) != (z, q, iso):
                    self.viol("C05", "instance_atom", f"atom {i} of {tok.name} instance is {a.GetSymbol()}{a.GetFormalCharge():+d}"
                              f" iso {a.GetIsotope()}, token says Z={z} q={q} iso={iso}")
                if a.GetTotalNumHs() != tok.hs[i]:
                    self.viol("C05", "hydrogen_count", f"atom {i} ({a.GetSymbol()}) of {tok.name} instance carries "
                              f"{a.GetTotalNumHs()} H, the notation implies {tok.hs[i]}")
        # the residue labels the library writes on the atoms (PDB residue info) show the same partition: one label per
        # instance, the same label for instances of one token, different labels for different tokens (the naming scheme itself
        # is not part of the property; molecules without labels are not judged)
        label_of_tok = {}
        for (u, off, n) in ledger:
            tok = self.inst[u]["tok"]
            labels = set()
            for i in range(min(n, natoms - off)):
                ri = mol.GetAtomWithIdx(off + i).GetPDBResidueInfo()
                labels.add(None if ri is None else (ri.GetResidueName(), ri.GetResidueNumber()))
            if labels == {None}:
                continue
            if len(labels) != 1:
                self.viol("C05", "residue_labels", f"atoms of one instance of {tok.name} carry the residue labels {sorted(map(str, labels))}")
                break
            lab = next(iter(labels))
            prev = label_of_tok.setdefault(id(tok), lab)
            if prev != lab:
                self.viol("C05", "residue_labels", f"two instances of {tok.name} carry different residue labels {prev} / {lab}")
                break
        if len(set(label_of_tok.values())) != len(label_of_tok):
            self.viol("C05", "residue_labels", "instances of different tokens carry the same residue label")
        internal = {}
        cross = []
        for b in mol.GetBonds():
            i, j = b.GetBeginAtomIdx(), b.GetEndAtomIdx()
            ui, uj = cover[i], cover[j]
            if ui == uj:
                off = inst_off[ui][0]
                internal.setdefault(ui, {})[(min(i, j) - off, max(i, j) - off)] = b.GetBondTypeAsDouble()
            else:
                cross.append((i, j, b.GetBondTypeAsDouble(), ui, uj))
        for (u, off, n) in ledger:
            tok = self.inst[u]["tok"]
            got = internal.get(u, {})
            if got != tok.bonds:
                self.viol("C05", "instance_bonds", f"internal bonds of {tok.name} instance {sorted(got.items())} != token {sorted(tok.bonds.items())}")
        # tree over instances == kept attach events
        kept_atts = [a for a in self.atts if a["uid"] in kept]
        want_edges = {}
        for a in kept_atts:
            ev = a["ev"]
            vs, vo = ev["pre_self"][ev["si"]], ev["pre_other"][ev["oi"]]
            us, uo = vs["tag"][0], vo["tag"][0]
            if us in inst_off and uo in inst_off:
                ss, so = self._site(vs), self._site(vo)
                key = (min(us, uo), max(us, uo))
                want_edges[key] = want_edges.get(key, 0) + 1
        got_edges = {}
        for (i, j, o, ui, uj) in cross:
            key = (min(ui, uj), max(ui, uj))
            got_edges[key] = got_edges.get(key, 0) + 1
        if got_edges != want_edges:
            self.viol("C05", "inter_residue_bonds", f"bonds between residues {got_edges} differ from the attachments performed {want_edges}")
        if any(c != 1 for c in got_edges.values()):
            self.viol("C05", "multi_bond_pair", "two residues joined by more than one bond")
        n_inst = len(ledger)
        if len(got_edges) != n_inst - 1:
            self.viol("C05", "tree_edge_count", f"{n_inst} residues joined by {len(got_edges)} bonds (a tree needs {n_inst - 1})")
        else:
            # connected?
            adj = {u: set() for (u, _, _) in ledger}
            for (a, b) in got_edges:
                adj[a].add(b)
                adj[b].add(a)
            seen = set()
            stack = [ledger[0][0]]
            while stack:
                x = stack.pop()
                if x in seen:
                    continue
                seen.add(x)
                stack.extend(adj[x] - seen)
            if len(seen) != n_inst:
                self.viol("C05", "connected", "residues do not form one connected piece")
        if len(Chem.GetMolFrags(mol)) != 1:
            self.viol("C05", "connected", "molecule has more than one fragment")
        # library's own residue graph
        try:
            g = result.graph
            if g.number_of_nodes() != n_inst or g.number_of_edges() != len(got_edges):
                self.viol("C05", "residue_graph", f"MolGen.graph has {g.number_of_nodes()} nodes / {g.number_of_edges()} edges, "
                          f"molecule has {n_inst} residues / {len(got_edges)} joints")
            else:
                uid_of = {n: d.get("gb_uid") for n, d in g.nodes(data=True)}
                ge = {}
                for a, b in g.edges():
                    key = (min(uid_of[a], uid_of[b]), max(uid_of[a], uid_of[b]))
                    ge[key] = ge.get(key, 0) + 1
                if ge != got_edges:
                    self.viol("C05", "residue_graph", "edges of MolGen.graph differ from the bonds between residues")
        except Exception as exc:
            self.viol("C05", "residue_graph", f"MolGen.graph unusable: {exc!r}")
        # mass
        from rdkit.Chem import Descriptors

        mass = Descriptors.HeavyAtomMolWt(mol)
        want_mass = sum(self.inst[u]["tok"].mass for (u, _, _) in ledger)
        if abs(mass - want_mass) > 1e-6 * max(1, n_inst):
            self.viol("C05", "mass_sum", f"heavy-atom mass {mass} != sum over residues {want_mass}")
        if abs(float(result.weight) - mass) > 1e-6 * max(1, n_inst):
            self.viol("C05", "mass_accessor", f"MolGen.weight {result.weight} != heavy-atom mass of MolGen.mol {mass}")
        # the SMILES accessor describes the same molecule as MolGen.mol (elements, isotopes, charges, bonds; stereo marks are
        # not compared: they never survive generation)
        try:
            smi = result.smiles
            pp = Chem.SmilesParserParams()
            pp.removeHs = False  # an explicit [H] token is an atom of the molecule
            back = Chem.MolFromSmiles(smi, pp)
            if back is None:
                self.viol("C05", "smiles_accessor", f"MolGen.smiles {smi!r} is not valid SMILES")
            else:
                a, b = _flat(back), _flat(mol)
                if a != b:
                    self.viol("C05", "smiles_accessor", f"MolGen.smiles {smi!r} denotes {a!r}, MolGen.mol is {b!r}")
        except Exception as exc:
            self.viol("C05", "smiles_accessor", f"MolGen.smiles raised {exc!r}")
        # ---------------- C06 ---------------------------------------------------------
        if "C06" not in self.props or not self.expect_complete:
            return
        if not result.fully_generated or len(result.bond_descriptors) != 0:
            self.viol("C06", "open_descriptor_left", f"{len(result.bond_descriptors)} open descriptors on the returned molecule")
        # every descriptor of every residue formed exactly one bond (judged on the molecule itself)
        deg = {}
        for (i, j, o, ui, uj) in cross:
            deg[i] = deg.get(i, 0) + 1
            deg[j] = deg.get(j, 0) + 1
        for (u, off, n) in ledger:
            tok = self.inst[u]["tok"]
            want = {}
            for s in tok.sites:
                want[s] = want.get(s, 0) + 1
            for i in range(n):
                if deg.get(off + i, 0) != want.get(i, 0):
                    self.viol("C06", "descriptor_bond_count",
                              f"atom {i} of {tok.name} instance has {deg.get(off + i, 0)} bonds to other residues, "
                              f"{want.get(i, 0)} descriptors are written on it")
                    break
        # element order
        elems = self.ast.elements
        per_elem = {}
        last_ei = -1
        order_ok = True
        for (u, off, n) in ledger:  # creation order
            ei, role, k = self.inst[u]["elem"]
            per_elem.setdefault(ei, []).append((u, role))
            if ei < last_ei:
                order_ok = False
            last_ei = max(last_ei, ei)
        if not order_ok:
            self.viol("C06", "element_order", "residues were created out of the written element order")
        for ei, e in enumerate(elems):
            lst = per_elem.get(ei, [])
            if isinstance(e, Tok):
                if len(lst) != 1:
                    self.viol("C06", "token_once", f"token element {e.name} occurs {len(lst)} times")
            else:
                if not any(r == "rep" for _, r in lst):
                    self.viol("C06", "no_repeat_unit", f"stochastic object {ei} contributed no repeat unit")
        # joints between elements: exactly one between consecutive, none between non-adjacent
        joints = {}
        for (a, b) in got_edges:
            ea, eb = self.inst[a]["elem"][0], self.inst[b]["elem"][0]
            if ea != eb:
                key = (min(ea, eb), max(ea, eb))
                joints[key] = joints.get(key, 0) + 1
        for (ea, eb), c in joints.items():
            if eb - ea != 1:
                self.viol("C06", "nonadjacent_elements_bonded", f"elements {ea} and {eb} are bonded")
            elif c != 1:
                self.viol("C06", "element_joint_count", f"elements {ea},{eb} joined by {c} bonds")
        for ei in range(len(elems) - 1):
            if (ei, ei + 1) not in joints:
                self.viol("C06", "element_joint_missing", f"elements {ei} and {ei + 1} are not bonded")
        # joints go through descriptors matching the terminals between the elements
        for a in kept_atts:
            ev = a["ev"]
            vs, vo = ev["pre_self"][ev["si"]], ev["pre_other"][ev["oi"]]
            es, eo = self.elem_index(vs), self.elem_index(vo)
            if es is None or eo is None or es == eo:
                continue
            lo, hi = (vs, vo) if es < eo else (vo, vs)
            dlo, dhi = self.ast_desc(lo), self.ast_desc(hi)
            elo, ehi = elems[min(es, eo)], elems[max(es, eo)]
            if isinstance(elo, Stoch) and elo.right.sym != "":
                r = elo.right
                if not compatible(Desc(sym=r.sym, did=r.did, order=r.order), dlo):
                    self.viol("C06", "joint_vs_right_terminal", f"descriptor {dlo.text()} leaving element {min(es, eo)} does not match its right terminal {r.text()}")
            if isinstance(elo, Stoch) and elo.right.sym == "":
                self.viol("C06", "joint_through_closed_terminal", f"element {min(es, eo)} has a closed right terminal but is bonded to the next element")
            if isinstance(ehi, Stoch):
                l = ehi.left
                if l.sym == "" or (dlo.sym, dlo.did, dlo.order) != (l.sym, l.did, l.order):
                    self.viol("C06", "joint_vs_left_terminal", f"descriptor {dlo.text()} entering element {max(es, eo)} differs from its left terminal {l.text()}")
        # end groups only as leaves
        inst_deg = {}
        for (a, b) in got_edges:
            inst_deg[a] = inst_deg.get(a, 0) + 1
            inst_deg[b] = inst_deg.get(b, 0) + 1
        for (u, off, n) in ledger:
            ei, role, k = self.inst[u]["elem"]
            if role == "end" and inst_deg.get(u, 0) > 1:
                self.viol("C06", "end_group_not_leaf", f"end group {self.inst[u]['tok'].name} has {inst_deg[u]} neighbours")

    # -- C07 ----------------------------------------------------------------------
    def audit_stop_rule(self, result, kept):
        elems = self.ast.elements
        stoch_idx = [i for i, e in enumerate(elems) if isinstance(e, Stoch)]
        draws = [d for d in self.draws]
        if len(draws) != len(stoch_idx):
            self.viol("C07", "draw_count", f"{len(draws)} target draws for {len(stoch_idx)} stochastic objects")
        kept_atts = [a for a in self.atts if a["uid"] in kept]
        self.stop_records = []
        for n_th, ei in enumerate(stoch_idx):
            if n_th >= len(draws):
                break
            d = draws[n_th]
            e = elems[ei]
            if not dist_text_matches(d["text"], e.dist):
                self.viol("C07", "draw_distribution", f"draw #{n_th} came from {d['text']}, object {ei} declares {e.dist.text()}")
            t = d["v"]
            growth = [a for a in kept_atts if a["ei"] == ei and a["cls"] == "growth"]
            caps = [a for a in kept_atts if a["ei"] == ei and a["cls"] == "cap"]
            if not growth:
                self.viol("C07", "no_unit", f"stochastic object {ei} added no unit")
                continue
            a0 = growth[0]["ev"]["w_pre"]
            added = [g["ev"]["w_post"] - a0 for g in growth]
            self.stop_records.append({"ei": ei, "target": t, "added": added, "caps": len(caps)})
            # Exact ties.  Whether "added mass == target" is seen as a tie depends on how the mass is summed (the molecule weighed
            # as a whole, or unit masses accumulated): the last bit differs, the property does not.  A comparison within 1e-11
            # (relative) of equality is therefore only judged where every summation gives the same float: the first unit of a
            # block that starts from zero heavy-atom mass (prefix [H], or an [H] end group).
            def near(x):
                return abs(x - t) <= 1e-11 * max(1.0, abs(t))

            def judged(k):
                return (not near(added[k])) or (k == 0 and a0 == 0.0)

            for k, g in enumerate(growth[:-1]):
                if added[k] > t and not judged(k):
                    self.probe("tie_within_rounding_not_judged")
                    continue
                if added[k] > t:
                    self.viol("C07", "grew_past_target",
                              f"object {ei}: after unit {k + 1} the added mass {added[k]} already exceeded the target {t}, yet unit {k + 2} was appended",
                              g["ev"])
                    break
            last = growth[-1]
            if not (added[-1] > t) and len(last["ev"]["post"]) > 0 and not judged(len(added) - 1):
                self.probe("tie_within_rounding_not_judged")
            elif not (added[-1] > t) and len(last["ev"]["post"]) > 0:
                # the reserved terminal descriptor may be the only open one: that still counts as open
                self.viol("C07", "stopped_early",
                          f"object {ei}: stopped after {len(growth)} units with added mass {added[-1]} <= target {t} although descriptors were open",
                          last["ev"])
            if len(last["ev"]["post"]) == 0 and not (added[-1] > t):
                self.probe("premature_end_no_open_descriptor")
            if t < added[0]:
                self.probe("target_below_one_unit")
            if t < 0:
                self.probe("negative_target")
            if any(x == t for x in added):
                self.probe("tie_target")


def _flat(m):
    m = Chem.Mol(m)
    Chem.RemoveStereochemistry(m)
    return Chem.MolToSmiles(m)


def dist_text_matches(text, dist):
    """Compare the library's printed distribution with the AST's family and parameters."""
    import re

    m = re.search(r"([a-z_]+)\s*\(([^)]*)\)", text)
    if not m:
        return False
    if m.group(1) != dist.family:
        return False
    try:
        vals = [float(x) for x in m.group(2).split(",")]
    except ValueError:
        return False
    want = list(dist.params)
    if dist.family == "uniform":
        want = [float(int(x)) for x in want]  # documented finding F-uniform-int is C09's business, not C07's
    if len(vals) != len(want):
        return False
    return all(math.isclose(a, b, rel_tol=1e-9, abs_tol=1e-12) for a, b in zip(vals, want))
