"""Sensitivity catalogue: realistic small edits of /repo/src that keep the repository's tests green
but break a property.  Each is applied to a scratch copy of the source tree (outside /repo and
/verif), the named checks are run against it (GBSIM_REPO=<copy>) and must exit 1; the copy is removed.

./check selftest --sensitivity [name ...] [--runs N] [--all-props]
"""
import json
import os
import shutil
import subprocess
import sys
import tempfile
import time

from . import runner

S = "src/gbigsmiles/"
CATALOGUE = [
    # name, file, old, new, properties expected to catch it
    ("stop_ge", S + "stochastic.py", "                    > target_mol_weight\n", "                    >= target_mol_weight\n", ["C07"]),
    ("start_mass_not_subtracted", S + "stochastic.py",
     "rdDescriptors.HeavyAtomMolWt(my_mol.mol) - starting_mol_weight\n", "rdDescriptors.HeavyAtomMolWt(my_mol.mol)\n", ["C07"]),
    ("two_draws", S + "stochastic.py", "            target_mol_weight = self.distribution.draw_mw(rng)\n",
     "            target_mol_weight = self.distribution.draw_mw(rng)\n            target_mol_weight = self.distribution.draw_mw(rng)\n", ["C07"]),
    ("bond_atom_of_first_descriptor", S + "mol_gen.py",
     "            other_bond_descriptors[other_bond_idx].atom_bonding_to,\n            self.bond_descriptors[self_bond_idx].bond_type,",
     "            other_bond_descriptors[0].atom_bonding_to,\n            self.bond_descriptors[self_bond_idx].bond_type,", ["C04", "C05"]),
    ("equal_weights_rule_removed", S + "core.py",
     "    if len(compatible_idx) > 0 and np.all(weights == weights[0]):\n        weights += 1\n", "", ["C08", "C06"]),
    ("growth_over_all_descriptors", S + "stochastic.py",
     "                    connecting_bond_idx = choose_compatible_weight(\n                        self.repeat_bonds, starting_bond, rng\n                    )",
     "                    connecting_bond_idx = choose_compatible_weight(\n                        self.bond_descriptors, starting_bond, rng\n                    )", ["C08"]),
    ("left_terminal_weight_not_transferred", S + "stochastic.py",
     "                prefix.bond_descriptors[0].transitions = self.left_terminal.transitions\n                prefix.bond_descriptors[0].weight = self.left_terminal.weight\n",
     "", ["C08"]),
    ("compat_filter_dropped", S + "core.py", "        if bond is None or bond.is_compatible(other):", "        if bond is None or bond.descriptor_id == other.descriptor_id:", ["C04", "C08", "C06"]),
    ("weights_ignored", S + "core.py", "    weights /= np.sum(weights)\n", "    weights = np.ones(len(weights)) / max(1, len(weights))\n", ["C08"]),
    ("transition_index_shift", S + "stochastic.py",
     "                    connecting_bond_idx = rng.choice(range(len(prob)), p=prob)\n",
     "                    connecting_bond_idx = rng.choice(range(len(prob)), p=np.roll(prob, 1))\n", ["C08"]),
    ("reserved_terminal_capped", S + "stochastic.py",
     "                del my_mol.bond_descriptors[terminal_bond_idx]\n", "                pass\n", ["C06", "C08"]),
    ("cap_only_first_open", S + "stochastic.py",
     "            while len(my_mol.bond_descriptors) > 0:\n                starting_bond_idx = choose_compatible_weight(my_mol.bond_descriptors, None, rng)",
     "            while len(my_mol.bond_descriptors) > 1:\n                starting_bond_idx = choose_compatible_weight(my_mol.bond_descriptors, None, rng)", ["C06"]),
    ("empty_branch_not_removed", S + "token.py", '        string = string.replace("(.)", "")\n', "", ["C05", "C06"]),
    ("descriptor_not_removed_after_attach", S + "mol_gen.py", "        del other_bond_descriptors[other_bond_idx]\n", "", ["C04", "C06"]),
    ("sz_params_swapped", S + "distribution.py", "        self._Mw, self._Mn = make_tuple(self._raw_text[len(\"schulz_zimm\") :])",
     "        self._Mn, self._Mw = make_tuple(self._raw_text[len(\"schulz_zimm\") :])", ["C09", "C10", "C11", "C13", "C14", "C16", "C18", "C20"]),
    ("lognormal_mean_shift", S + "distribution.py", "(np.log(m / M) + np.log(D) / 2) ** 2", "(np.log(m / M) - np.log(D) / 2) ** 2", ["C09", "C10", "C11", "C13", "C14", "C16", "C18", "C20"]),
    ("gauss_sigma_as_variance", S + "distribution.py", "stats.norm(loc=self._mu, scale=self._sigma)", "stats.norm(loc=self._mu, scale=np.sqrt(self._sigma))", ["C09"]),
    ("poisson_truncated_mean", S + "distribution.py", "        self._N = float(self._raw_text[len(\"poisson\") + 1 : -1])",
     "        self._N = float(int(float(self._raw_text[len(\"poisson\") + 1 : -1])))", ["C09", "C10", "C11", "C13", "C14", "C16", "C18", "C20"]),
    ("uniform_scale_is_high", S + "distribution.py", "stats.uniform(loc=self._low, scale=(self._high - self._low))", "stats.uniform(loc=self._low, scale=self._high)", ["C09", "C10", "C11", "C13", "C14", "C16", "C18", "C20"]),
    ("flory_pmf_exponent", S + "distribution.py", "a**2 * k * (1 - a) ** (k - 1)", "a**2 * k * (1 - a) ** k", ["C11", "C09"]),
    ("interval_uses_pdf", S + "distribution.py",
     "            return self._distribution.cdf(mw.value) - self._distribution.cdf(mw.previous)\n",
     "            return self._distribution.cdf(mw.value) - self._distribution.cdf(mw.previous - 1)\n", ["C11"]),
    ("descriptor_deepcopy_dropped", S + "mol_gen.py", "        self.bond_descriptors = copy.deepcopy(token.bond_descriptors)\n",
     "        self.bond_descriptors = list(token.bond_descriptors)\n", ["C10"]),
    ("elements_not_copied", S + "molecule.py", "        return copy.deepcopy(self._elements)\n", "        return list(self._elements)\n", ["C10"]),
    ("global_rng_used_for_draw", S + "stochastic.py", "            target_mol_weight = self.distribution.draw_mw(rng)\n",
     "            target_mol_weight = self.distribution.draw_mw()\n", ["C10", "C09"]),
    ("ffcache_never_invalidated", S + "forcefield_helper.py",
     "        or smarts_filename != _global_smarts_rule_file\n        or nb_filename != _global_nonbonded_itp_file\n", "", ["C20"]),
    ("ffcache_names_before_read", S + "forcefield_helper.py",
     "        _global_assignment_class = SMARTS_ASSIGNMENTS(smarts_filename, nb_filename)\n        _global_smarts_rule_file = smarts_filename\n        _global_nonbonded_itp_file = nb_filename\n",
     "        _global_smarts_rule_file = smarts_filename\n        _global_nonbonded_itp_file = nb_filename\n        _global_assignment_class = SMARTS_ASSIGNMENTS(smarts_filename, nb_filename)\n", ["C20"]),
    ("ff_partial_not_refused", S + "mol_gen.py", "        if not self.fully_generated:\n            raise RuntimeError(\n                \"Forcefield assignment is only possible for fully generated molecules\"\n            )\n", "", ["C20"]),
    ("ff_completeness_check_dropped", S + "forcefield_helper.py", "        if len(final_dict) != mol.GetNumAtoms():\n            raise FfAssignmentError(final_dict)\n", "", ["C20"]),
    ("graph_prob_normalised_over_all", S + "molecule.py", "G.add_edge(graph_bd, element_bd, prob=element_bd.weight / repeat_weight)",
     "G.add_edge(graph_bd, element_bd, prob=element_bd.weight / (repeat_weight + end_weight))", ["C16"]),
    ("graph_term_prob_uniform", S + "molecule.py", "graph_bd, element_bd, term_prob=element_bd.weight / end_weight",
     "graph_bd, element_bd, term_prob=1.0 / max(1, len(element.end_tokens))", ["C16"]),
    ("graph_list_prob_unnormalised", S + "molecule.py", "                prob = graph_bd.transitions / graph_bd.weight\n",
     "                prob = graph_bd.transitions / max(graph_bd.transitions)\n", ["C16"]),
    ("graph_trans_ignores_left_terminal_compat", S + "molecule.py",
     "                            graph_bd.is_compatible(other_bd)\n                            and other_bd.is_compatible(next_element.left_terminal)\n                            and bond_descriptors[other_bd] in next_element.repeat_tokens\n                        ):\n                            G.add_edge(\n                                graph_bd, other_bd, trans_prob=other_bd.weight / total_weight\n                            )\n\n                if isinstance(element, Stochastic) and isinstance(next_element, SmilesToken):",
     "                            graph_bd.is_compatible(other_bd)\n                            and bond_descriptors[other_bd] in next_element.repeat_tokens\n                        ):\n                            G.add_edge(\n                                graph_bd, other_bd, trans_prob=other_bd.weight / total_weight\n                            )\n\n                if isinstance(element, Stochastic) and isinstance(next_element, SmilesToken):", ["C16"]),
    ("ag_termination_single_atom", S + "graph_generate.py", "            self._fill_static_edges(last_node_id, edges_allowed=False)\n", "", ["C18"]),
    ("ag_charge_dropped", S + "graph_generate.py", "            atom.SetFormalCharge(int(node[1].get(\"formal_charge\", 0)))\n", "", ["C18"]),
    ("ag_static_bond_type_single", S + "graph_generate.py", "            bond_type = edge[2][\"bond_type\"]\n            self.graph.add_edge(atom_a, atom_b, bond_type=bond_type)",
     "            bond_type = 1\n            self.graph.add_edge(atom_a, atom_b, bond_type=bond_type)", ["C18"]),
    ("ag_rng_default_in_terminate", S + "graph_generate.py", "                    idx = self.rng.choice(len(edge_list), p=weights)\n", "                    idx = np.random.default_rng().choice(len(edge_list), p=weights)\n", ["C18"]),
    ("ag_stochastic_bond_to_wrong_node", S + "graph_generate.py", "        self.graph.add_edge(node, new_node_idx, bond_type=new_bond_type)\n        return new_node_idx",
     "        self.graph.add_edge(max(0, node - 1), new_node_idx, bond_type=new_bond_type)\n        return new_node_idx", ["C18"]),
    ("premature_end_ignored_weight", S + "stochastic.py",
     "                if len(my_mol.bond_descriptors) == 0:", "                if len(my_mol.bond_descriptors) <= 1 and str(self.right_terminal) == \"[]\":", ["C07", "C06"]),
]

# the fragment handed to attach_other is an object of its own that a caller may hold on to (a sub-agent's seeded change
# S-C05r6-1 builds molecules from a pool of fragments that way): attaching must not move its descriptors.  Was classed as
# behaviour-preserving until round 6, because no path inside the library re-uses the fragment.
BENIGN_ATTACH_DEEPCOPY_DROPPED = ("attach_deepcopy_dropped", S + "mol_gen.py", "        other_bond_descriptors = copy.deepcopy(other.bond_descriptors)\n",
     "        other_bond_descriptors = list(other.bond_descriptors)\n", ["C05"])
CATALOGUE.append(BENIGN_ATTACH_DEEPCOPY_DROPPED)
# typing rules visited in the iteration order of a set of str: ties between equally long rules are then settled by the
# interpreter's string hash seed (only a process restart under another PYTHONHASHSEED can show it)
CATALOGUE.append(("ff_rules_in_hash_order", S + "forcefield_helper.py", "        for rule in self._rule_dict:\n            rule_mol",
                  "        for rule in set(self._rule_dict):\n            rule_mol", ["C20"]))

# behaviour-preserving edits: every check must stay quiet on them (soundness)
BENIGN_MIRROR_SHALLOW = ("mirror_shallow", S + "molecule.py", "        mirror = copy.deepcopy(self)\n", "        mirror = copy.copy(self)\n", ["C10"])

BENIGN_FFCACHE_NAMES_MIXED_UP = ("ffcache_names_mixed_up", S + "forcefield_helper.py",
     "        or smarts_filename != _global_smarts_rule_file\n        or nb_filename != _global_nonbonded_itp_file\n",
     "        or smarts_filename != _global_nonbonded_itp_file\n        or nb_filename != _global_smarts_rule_file\n", ["C20"])

BENIGN_FF_LONGEST_RULE_PREF_DROPPED = ("ff_longest_rule_pref_dropped", S + "forcefield_helper.py", "                if len(match_rule) > len(final_match):", "                if False:", ["C20"])

BENIGN = [
    BENIGN_MIRROR_SHALLOW, BENIGN_FFCACHE_NAMES_MIXED_UP, BENIGN_FF_LONGEST_RULE_PREF_DROPPED,
    ("extra_discarded_finalisation", S + "stochastic.py",
     "                finalized_my_mol = finalize_mol(copy.deepcopy(my_mol))\n",
     "                finalize_mol(copy.deepcopy(my_mol))\n                finalized_my_mol = finalize_mol(copy.deepcopy(my_mol))\n", []),
    ("finalise_only_when_stopping", S + "stochastic.py",
     "                finalized_my_mol = finalize_mol(copy.deepcopy(my_mol))\n                if (\n                    rdDescriptors.HeavyAtomMolWt(my_mol.mol) - starting_mol_weight\n                    > target_mol_weight\n                ):\n                    break\n",
     "                if (\n                    rdDescriptors.HeavyAtomMolWt(my_mol.mol) - starting_mol_weight\n                    > target_mol_weight\n                ):\n                    finalized_my_mol = finalize_mol(copy.deepcopy(my_mol))\n                    break\n", []),
    ("del_replaced_by_slicing", S + "mol_gen.py", "        del self.bond_descriptors[self_bond_idx]\n",
     "        self.bond_descriptors = self.bond_descriptors[:self_bond_idx] + self.bond_descriptors[self_bond_idx + 1 :]\n", []),
    ("choice_skipped_for_single_option", S + "core.py", "    try:\n        idx = rng.choice(compatible_idx, p=weights)\n",
     "    if len(compatible_idx) == 1:\n        return compatible_idx[0]\n    try:\n        idx = rng.choice(compatible_idx, p=weights)\n", []),
    ("choice_on_count", S + "core.py", "        idx = rng.choice(compatible_idx, p=weights)\n",
     "        idx = compatible_idx[rng.choice(len(compatible_idx), p=weights)]\n", []),
    ("mass_from_public_weight", S + "stochastic.py", "            starting_mol_weight = rdDescriptors.HeavyAtomMolWt(my_mol.mol)\n",
     "            starting_mol_weight = rdDescriptors.HeavyAtomMolWt(my_mol._mol)\n", []),
    ("draw_after_start_mass", S + "stochastic.py",
     "            starting_mol_weight = rdDescriptors.HeavyAtomMolWt(my_mol.mol)\n            target_mol_weight = self.distribution.draw_mw(rng)\n",
     "            target_mol_weight = self.distribution.draw_mw(rng)\n            starting_mol_weight = rdDescriptors.HeavyAtomMolWt(my_mol.mol)\n", []),
    ("renamed_local_and_comment", S + "system.py", "            mol_gen = mol.generate(rng=rng)\n            generated_total_mass += mol_gen.weight\n            if not mol_gen.fully_generated:\n                raise RuntimeError(\"We expect a fully generated molecule here.\")\n            yield mol_gen",
     "            member = mol.generate(rng=rng)\n            if not member.fully_generated:\n                raise RuntimeError(\"We expect a fully generated molecule here.\")\n            generated_total_mass += member.weight\n            yield member", []),
]
ALL_PROPS = ["C04", "C05", "C06", "C07", "C08", "C09", "C10", "C11", "C13", "C14", "C16", "C18", "C19", "C20"]


def run_soundness(names, runs, out=sys.stdout):
    """every check must stay quiet (exit 0) on behaviour-preserving edits"""
    ok = True
    for e in BENIGN:
        if names and e[0] not in names:
            continue
        tmp = tempfile.mkdtemp(prefix="gbsim-ben-")
        try:
            shutil.copytree(os.path.join("/repo", "src"), os.path.join(tmp, "src"), ignore=shutil.ignore_patterns("__pycache__", "*.egg-info"))
            apply(e, tmp)
            bad = []
            for pid in ALL_PROPS:
                env = dict(os.environ)
                env.update({"GBSIM_REPO": tmp, "GBSIM_RUNS": str(runs), "PYTHONHASHSEED": "0", "GBSIM_EVIDENCE_DIR": os.path.join(tmp, "ev"),
                            "GBSIM_REPLAY_DIR": os.path.join(tmp, "rp")})
                p = subprocess.run([sys.executable, runner.MAIN, pid, "quick"], capture_output=True, text=True, env=env, timeout=3000)
                if p.returncode != 0:
                    viol = [l.strip()[:200] for l in p.stdout.splitlines() if l.startswith("  invariant=") or l.startswith("HARNESS")]
                    bad.append((pid, p.returncode, viol[:2]))
            print(f"[benign] {e[0]:36s} {'QUIET' if not bad else 'ALARM ' + str(bad)}", file=out, flush=True)
            ok = ok and not bad
        finally:
            shutil.rmtree(tmp, ignore_errors=True)
    return 0 if ok else 1


def apply(entry, dst):
    name, rel, old, new, props = entry
    path = os.path.join(dst, rel)
    with open(path) as fh:
        s = fh.read()
    if old not in s:
        raise RuntimeError(f"mutant {name}: pattern not found in {rel}")
    if "np.roll" in new and "import numpy as np" not in s:
        s = "import numpy as np\n" + s
    with open(path, "w") as fh:
        fh.write(s.replace(old, new, 1))


def run_one(entry, runs, all_props=False, out=sys.stdout):
    name, rel, old, new, props = entry
    tmp = tempfile.mkdtemp(prefix="gbsim-mut-")
    try:
        shutil.copytree(os.path.join("/repo", "src"), os.path.join(tmp, "src"), ignore=shutil.ignore_patterns("__pycache__", "*.egg-info"))
        apply(entry, tmp)
        results = {}
        check_props = props if not all_props else ["C04", "C05", "C06", "C07", "C08", "C09", "C10", "C11", "C13", "C14", "C16", "C18", "C20"]
        for pid in check_props:
            env = dict(os.environ)
            env.update({"GBSIM_REPO": tmp, "GBSIM_RUNS": str(runs), "PYTHONHASHSEED": "0", "GBSIM_EVIDENCE_DIR": os.path.join(tmp, "ev"),
                        "GBSIM_REPLAY_DIR": os.path.join(tmp, "rp")})
            t0 = time.time()
            p = subprocess.run([sys.executable, runner.MAIN, pid, "quick"], capture_output=True, text=True, env=env, timeout=3000)
            viol = [l for l in p.stdout.splitlines() if l.startswith("  invariant=")]
            results[pid] = (p.returncode, viol[:2], round(time.time() - t0, 1))
        caught = [pid for pid, r in results.items() if r[0] == 1]
        status = "CAUGHT" if caught else "MISSED"
        print(f"[mutant] {name:40s} {status} by {caught}  " + "; ".join(f"{pid}:exit{r[0]}/{r[2]}s" for pid, r in results.items()), file=out)
        for pid, r in results.items():
            for v in r[1][:1]:
                print(f"      {pid} {v.strip()[:220]}", file=out)
            if r[0] == 2:
                print(f"      {pid} HARNESS-ERROR (exit 2)", file=out)
        return bool(caught)
    finally:
        shutil.rmtree(tmp, ignore_errors=True)


def main(args):
    runs = 1500
    names = []
    all_props = False
    i = 0
    while i < len(args):
        if args[i] == "--runs":
            runs = int(args[i + 1])
            i += 1
        elif args[i] == "--all-props":
            all_props = True
        else:
            names.append(args[i])
        i += 1
    if names and names[0] == "--soundness":
        return run_soundness(names[1:], runs)
    entries = [e for e in CATALOGUE if not names or e[0] in names]
    ok = True
    for e in entries:
        ok = run_one(e, runs, all_props) and ok
    return 0 if ok else 1
