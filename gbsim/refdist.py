"""Reference laws of the six documented molecular-weight distributions.

Closed forms written from the documentation in distribution.py's doc-strings / README
(parameter order and meaning as documented): independent of distribution.py's code and of
scipy's generic rv_discrete / rv_continuous machinery (scipy.special only).
"""
import math
import re

from scipy import special as sp


class RefDist:
    family = ""
    discrete = False

    def q(self, u):
        raise NotImplementedError

    def cdf(self, x):
        raise NotImplementedError

    def mean(self):
        raise NotImplementedError


class Gauss(RefDist):
    family = "gauss"

    def __init__(self, mu, sigma):
        self.mu, self.sigma = float(mu), float(sigma)

    def q(self, u):
        return self.mu + self.sigma * float(sp.ndtri(u))

    def cdf(self, x):
        if self.sigma == 0:
            return 1.0 if x >= self.mu else 0.0
        return float(sp.ndtr((x - self.mu) / self.sigma))

    def mean(self):
        return self.mu


class Uniform(RefDist):
    family = "uniform"

    def __init__(self, lo, hi):
        self.lo, self.hi = float(lo), float(hi)

    def q(self, u):
        return self.lo + u * (self.hi - self.lo)

    def cdf(self, x):
        if self.hi == self.lo:
            return 1.0 if x >= self.lo else 0.0
        return min(1.0, max(0.0, (x - self.lo) / (self.hi - self.lo)))

    def mean(self):
        return 0.5 * (self.lo + self.hi)


class SchulzZimm(RefDist):
    """P(M) = z^(z+1)/Gamma(z+1) M^(z-1)/Mn^z exp(-zM/Mn), z = Mn/(Mw-Mn): a Gamma law with
    shape z and mean Mn (the library tabulates it on integer masses)."""
    family = "schulz_zimm"
    discrete = True

    def __init__(self, Mw, Mn):
        self.Mw, self.Mn = float(Mw), float(Mn)
        self.z = self.Mn / (self.Mw - self.Mn)

    def q(self, u):
        return float(sp.gammaincinv(self.z, u)) * self.Mn / self.z

    def cdf(self, x):
        if x <= 0:
            return 0.0
        return float(sp.gammainc(self.z, x * self.z / self.Mn))

    def mean(self):
        return self.Mn


class LogNormal(RefDist):
    family = "log_normal"

    def __init__(self, Mn, D):
        self.Mn, self.D = float(Mn), float(D)
        self.s2 = math.log(self.D)
        self.m = math.log(self.Mn) - self.s2 / 2

    def q(self, u):
        return math.exp(self.m + math.sqrt(self.s2) * float(sp.ndtri(u)))

    def cdf(self, x):
        if x <= 0:
            return 0.0
        return float(sp.ndtr((math.log(x) - self.m) / math.sqrt(self.s2)))

    def mean(self):
        return self.Mn


class Poisson(RefDist):
    family = "poisson"
    discrete = True

    def __init__(self, lam):
        self.lam = float(lam)

    def cdf(self, x):
        k = math.floor(x)
        if k < 0:
            return 0.0
        return float(sp.pdtr(k, self.lam))

    def q(self, u):
        k = int(max(0, math.floor(float(sp.pdtrik(u, self.lam))) - 2))
        while self.cdf(k) < u:
            k += 1
        return k

    def mean(self):
        return self.lam


class FlorySchulz(RefDist):
    """W_a(k) = a^2 k (1-a)^(k-1), k = 1, 2, ...;  CDF(k) = 1 - (1-a)^k (1 + a k)."""
    family = "flory_schulz"
    discrete = True

    def __init__(self, a):
        self.a = float(a)

    def cdf(self, x):
        k = math.floor(x)
        if k < 1:
            return 0.0
        return 1.0 - (1.0 - self.a) ** k * (1.0 + self.a * k)

    def sf(self, k):
        return (1.0 - self.a) ** k * (1.0 + self.a * k)

    def q(self, u):
        lo, hi = 0, 1
        while self.cdf(hi) < u:
            hi *= 2
            if hi > 10 ** 12:
                break
        while hi - lo > 1:
            mid = (lo + hi) // 2
            if self.cdf(mid) < u:
                lo = mid
            else:
                hi = mid
        return hi

    def mean(self):
        return 2.0 / self.a - 1.0


_CLASSES = {
    "gauss": Gauss, "uniform": Uniform, "schulz_zimm": SchulzZimm, "log_normal": LogNormal, "poisson": Poisson,
    "flory_schulz": FlorySchulz,
}
_RE = re.compile(r"([a-z_]+)\s*\(([^)]*)\)")


def from_params(family, params):
    return _CLASSES[family](*params)


def from_text(text):
    m = _RE.search(text)
    if not m or m.group(1) not in _CLASSES:
        return None
    params = [float(x) for x in m.group(2).split(",")]
    return _CLASSES[m.group(1)](*params)
