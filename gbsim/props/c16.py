"""C16 - the reaction graph states the generator's probabilities, normalised at every node.

(i)  trace validation (the simulation part): generations of the same parsed molecule under coverage-steered schedules;
     every partner-type pick (growth, list transition, capping, hand-over / first unit of the next object) is looked
     up as the out-edges of the picking descriptor's node: `prob` / `term_prob` / `trans_prob` must equal the probability
     vector that was handed to the generator for exactly those targets.
(ii) state invariants on the same graph object (no schedule in them, labelled so): one node per token and per descriptor;
     per descriptor node each of the three sums is 1 or absent; positive edges join compatible descriptors only.
"""
import hashlib
import json
import random

from .. import genrun, reader, wellposed
from ..notation import compatible
from . import gencommon as gc

LEVEL = "exploration"
TECHNIQUE = ("deterministic simulation as trace validation: the reaction graph is the library's own Markov model of its generator; "
             "picks observed at the rng seam under coverage-steered schedules are compared edge by edge with the graph")
RULE = ("each run = one input x 5 generations under different seeded schedules (coverage-steered / rare / uniform-support) validated against "
        "one gen_reaction_graph(); distinct = hash of (input, decision sequences); non-trivial = at least 4 partner-type picks "
        "looked up in the graph; evidence reports the share of positive-probability edges exercised")
ASSUMPTIONS = gc.ASSUMPTIONS_COMMON + [
    "graph nodes are matched to notation descriptors through the live token / descriptor objects (Molecule.residues)",
    "open-descriptor picks, start picks and terminal reservations have no source node in the graph and are not compared",
    "(ii) has no schedule in it: it is evaluated on the same graph object and reported under its own invariant ids",
]
COMPONENTS = gc.COMPONENTS
KIND_ATTR = {"partner_pick": "prob", "list_transition": "prob", "cap_partner_pick": "term_prob", "handover_pick": "trans_prob"}


def plan(tier):
    return 1200 if tier == "quick" else 15000


def spec_from_seed(run_seed, tier):
    spec = gc.make_spec(run_seed, tier, "C16", forced_prob=0.0, allow_illposed=False)
    rnd = random.Random(run_seed + 1)
    spec["kind"] = "graphtrace"
    spec["seeds"] = [rnd.randrange(1 << 40) for _ in range(5)]
    spec["policies"] = ["cover", "rare", "cover", "uniform_support", "cover"]
    spec["sched"]["draw_policy"] = rnd.choice(["low", "mid", "natural"])
    spec["embed"] = "stub"
    spec["entry"] = "mirror" if rnd.random() < 0.25 else "molecule"  # the graph of Molecule.gen_mirror() against generation from it
    spec.pop("again", None)
    return spec


_COVER = {}


def execute(spec):
    text = spec["text"]
    try:
        ast = reader.read_molecule(text).build()
    except Exception as exc:
        return {"harness_error": f"reader failed: {exc!r}", "violations": []}
    viols = []
    feats = sorted(spec.get("tags", []))
    stats = {"runs": 1, "generations": 0, "picks_looked_up": 0, "edges_positive": 0, "edges_exercised": 0}
    entry = "molecule"
    if spec.get("entry") == "mirror":
        from ..notation import mirror_ast

        ast_m = mirror_ast(ast)
        if len(ast.elements) >= 2 and wellposed.analyse(ast_m)[0]:
            ast = ast_m
            entry = "mirror"
            stats["mirror_runs"] = 1
            feats = feats + ["mirror"]

    def viol(inv, msg, extra=()):
        viols.append({"property": "C16", "invariant": inv, "msg": msg, "features": feats + list(extra), "input": text})

    G = None
    mirror_obj = None  # every generation of a mirror run uses the one mirrored object the graph is built from
    cover = {}  # (option count, index) -> times taken, per input: steers later generations to picks not yet exercised
    node_of = None
    exercised = set()
    digests = []
    sigs = []
    graph_err = None
    for seed, pol in zip(spec["seeds"], spec["policies"]):
        sk = dict(spec["sched"])
        sk["seed"] = seed
        sk["choice_policy"] = pol
        sk["cover"] = cover if pol == "cover" else None
        out = genrun.run_molecule(text, sk, props=("C08",), embed="stub", cap_mass=spec.get("cap_mass"), wall=200, ast=ast,
                                  entry=entry if mirror_obj is None else "molecule", reuse_obj=mirror_obj,
                                  pre_generate_seed=(spec["seeds"][0] % 3 or None) if entry == "mirror" else None)
        if out.harness_error:
            return {"harness_error": out.harness_error, "violations": []}
        if isinstance(out.exc, genrun.WallTimeout):
            return {"harness_error": "wall timeout", "violations": []}
        stats["generations"] += 1
        if out.world:
            digests.append(out.world.digest())
        if out.audit is None or out.mol_obj is None:
            continue
        sigs.append(out.audit.sig)
        if G is None:
            mol = out.mol_obj
            if entry == "mirror":
                mirror_obj = mol
            try:
                G = mol.gen_reaction_graph()
            except Exception as exc:
                graph_err = exc
                break
            residues = mol.residues
            ares = ast.residues()
            node_of = {}
            for k, (tok, atok) in enumerate(zip(residues, ares)):
                for j, bd in enumerate(tok.bond_descriptors):
                    node_of[(id(atok), j)] = bd
            _state_invariants(G, residues, ares, node_of, viol, stats, ast)
            # building the graph again from the same object must give the same graph
            try:
                from . import c10

                G2 = mol.gen_reaction_graph()
                if c10._graph_digest(G2) != c10._graph_digest(G):
                    viol("graph_not_reproducible", "a second gen_reaction_graph() on the same molecule gives different nodes / edges / probabilities")
                G = G2
                node_of = {}
                for k, (tok, atok) in enumerate(zip(residues, ares)):
                    for j, bd in enumerate(tok.bond_descriptors):
                        node_of[(id(atok), j)] = bd
            except Exception as exc:
                viol("graph_construction_raised", f"second gen_reaction_graph raised {exc!r}", ["exc=" + type(exc).__name__])
            # a copy of the molecule taken now (after its graph has been built) denotes the same molecule: same graph
            try:
                import copy as _copy

                from . import c10

                Gc = _copy.deepcopy(mol).gen_reaction_graph()
                stats["graphs_of_copies"] = stats.get("graphs_of_copies", 0) + 1
                if c10._graph_digest(Gc) != c10._graph_digest(G):
                    viol("graph_of_copy_differs", "gen_reaction_graph() of a deep copy taken after the graph was built differs from the original's graph "
                         "(nodes / edges / probabilities)")
            except Exception as exc:
                viol("graph_construction_raised", f"gen_reaction_graph of a deep copy raised {exc!r}", ["exc=" + type(exc).__name__])
        if out.audit.violations:
            continue  # decisions that do not follow the notation are C08's business; the trace is then no oracle
        uid_tok = {u: rec["tok"] for u, rec in out.audit.inst.items()}
        for ex in out.audit.explained:
            attr = KIND_ATTR.get(ex["kind"])
            if attr is None:
                continue
            src_tok = uid_tok.get(ex["source"][0])
            if src_tok is None:
                continue
            src = node_of.get((id(src_tok), ex["source"][1]))
            if src is None or src not in G:
                viol("pick_source_not_in_graph", f"descriptor {ex['source']} of {src_tok.name} has no node")
                continue
            if ex["source_elem"] is not None and ex["source_elem"] != ex["elem"]:
                attr = "trans_prob"  # first unit of the next object / hand-over
            stats["picks_looked_up"] += 1
            fx = ["kind=" + ex["kind"], "attr=" + attr]
            if src_tok.descs[ex["source"][1]].trans is not None:
                fx.append("source_has_list")
            if all(t.descs[k].weight == 0 for (t, k) in ex["labels"]):
                fx.append("all_zero_weights")
            tgt_elem = ast.elements[ex["elem"]]
            if ex["source_elem"] is not None and ex["source_elem"] != ex["elem"] and hasattr(tgt_elem, "left") and tgt_elem.left.trans is not None:
                fx.append("left_terminal_list")
            out_edges = {}
            for _, tgt, data in G.out_edges(src, data=True):
                if attr in data:
                    out_edges[tgt] = data[attr]
            opt_nodes = []
            for (t, k), p in zip(ex["labels"], ex["p"]):
                tgt = node_of.get((id(t), k))
                opt_nodes.append(tgt)
                ge = out_edges.get(tgt)
                if p > 0:
                    exercised.add((id(src), id(tgt), attr))
                    if ge is None:
                        viol("pick_without_edge", f"{ex['kind']}: generation picks {t.descs[k].text()} of {t.name} from {src_tok.descs[ex['source'][1]].text()} "
                             f"of {src_tok.name} with probability {p:.6g}; the graph has no {attr} edge for it", fx)
                        break
                    if abs(ge - p) > 1e-9 + 1e-9 * abs(p):
                        viol("edge_probability", f"{ex['kind']}: {attr} of edge {src_tok.descs[ex['source'][1]].text()}@{src_tok.name} -> "
                             f"{t.descs[k].text()}@{t.name} is {ge!r}, generation uses {p!r}", fx)
                        break
                elif ge is not None and ge > 1e-12:
                    viol("edge_probability", f"{ex['kind']}: graph gives {attr}={ge!r} to an option generation never takes "
                         f"({t.descs[k].text()}@{t.name})", fx)
                    break
            else:
                extra = [v for tgt, v in out_edges.items() if tgt not in opt_nodes and v > 1e-12]
                if extra:
                    viol("edge_to_non_option", f"{ex['kind']}: node of {src_tok.descs[ex['source'][1]].text()}@{src_tok.name} has {attr} edges "
                         f"({extra[:3]}) to descriptors generation does not offer at this pick", fx)
        if len(viols) > 6:
            break
    if graph_err is not None:
        viol("graph_construction_raised", f"gen_reaction_graph raised {graph_err!r}", ["exc=" + type(graph_err).__name__])
    if G is not None:
        pos = set()
        for a, b, data in G.edges(data=True):
            for attr in ("prob", "term_prob", "trans_prob"):
                if data.get(attr, 0) > 1e-12:
                    pos.add((id(a), id(b), attr))
        stats["edges_positive"] = len(pos)
        stats["edges_exercised"] = len(pos & exercised)
    sig = hashlib.sha1(json.dumps([text, sigs], default=str).encode()).hexdigest()
    sample = {"input": text, "policies": spec["policies"], "picks_looked_up": stats["picks_looked_up"],
              "edges_positive": stats["edges_positive"], "edges_exercised": stats["edges_exercised"]}
    dg = hashlib.sha256("".join(digests).encode()).hexdigest()
    return {"violations": viols, "stats": stats, "sig": sig, "nontrivial": stats["picks_looked_up"] >= 4, "sample": sample, "digest": dg,
            "trace": None}


def _state_invariants(G, residues, ares, node_of, viol, stats, ast=None):
    n_tok = len(residues)
    n_bd = sum(len(t.bond_descriptors) for t in residues)
    if G.number_of_nodes() != n_tok + n_bd:
        viol("node_count", f"graph has {G.number_of_nodes()} nodes for {n_tok} tokens and {n_bd} descriptors", ["static"])
    ast_of = {}
    for atok in ares:
        for j in range(len(atok.descs)):
            nd = node_of.get((id(atok), j))
            if nd is not None:
                ast_of[id(nd)] = (atok, j)
    stats["graph_nodes_checked"] = stats.get("graph_nodes_checked", 0) + len(ast_of)
    roles = ast.element_of() if ast is not None else {}
    for key, nd in node_of.items():
        if nd not in G:
            viol("descriptor_without_node", "a descriptor of the string has no node", ["static"])
            continue
        sums = {"prob": 0.0, "term_prob": 0.0, "trans_prob": 0.0}
        for _, tgt, data in G.out_edges(nd, data=True):
            for attr in sums:
                if attr in data:
                    sums[attr] += data[attr]
                    if data[attr] > 1e-12 and id(tgt) in ast_of and id(nd) in ast_of:
                        (ta, ja), (tb, jb) = ast_of[id(nd)], ast_of[id(tgt)]
                        if not compatible(ta.descs[ja], tb.descs[jb]):
                            viol("edge_between_incompatible", f"{attr} edge {ta.descs[ja].text()}@{ta.name} -> {tb.descs[jb].text()}@{tb.name}", ["static", "attr=" + attr])
        for attr, sm in sums.items():
            if not (abs(sm - 1) < 1e-6 or abs(sm) < 1e-6):
                ta, ja = ast_of[id(nd)]
                viol("node_sum", f"{attr} out of {ta.descs[ja].text()}@{ta.name} sums to {sm!r}", ["static", "attr=" + attr])
        # an end group has one descriptor, and that one is consumed when the end group is attached: generation never hands over
        # to the next element (and never grows on) from an end-group descriptor, so no transition / reaction law may leave it
        if ast is not None and id(nd) in ast_of:
            ta, ja = ast_of[id(nd)]
            role = roles.get(id(ta))
            if role is not None and role[1] == "end" and len(ta.descs) == 1 and sums["trans_prob"] > 1e-12:
                viol("transition_from_end_group", f"trans_prob edges (sum {sums['trans_prob']!r}) leave the end-group descriptor "
                     f"{ta.descs[ja].text()}@{ta.name}: generation never hands over from an end group", ["static", "attr=trans_prob"])


shrink_candidates = gc.shrink_candidates
