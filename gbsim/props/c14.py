"""C14 - generated ensembles have the declared composition by mass.

 interface  components of deterministic molecular mass (plain molecules, chains with a zero-width law).  The selection
            vector p handed to rng.choice for the component pick is read at the seam; under a fixed vector the long-run
            mass share of component i is exactly p_i m_i / sum_j p_j m_j (renewal-reward) and must equal the declared
            fraction f_i.  If the vector changes during a run (an adaptive selection) this part is skipped.
 outcome    faithful policy (outcomes sampled with the probabilities the code asked for), N >= 1500 members: the realised
            mass share of every component must lie within  m_max / M_total + 7 sigma_i  of f_i, sigma_i from the multinomial
            of the memoryless law that satisfies the property; re-confirmed on a second seed before it is reported.
"""
import hashlib
import json
import math
import random

import numpy as np

from .. import archetypes, boot, reader, sysrun
from ..seams import World, _heavy_mass
from ..simrng import Scheduler, SimRng

LEVEL = "exploration"
TECHNIQUE = ("deterministic simulation: component-pick probability vectors read at the rng seam (renewal-reward share) and realised "
             "mass shares of simulated ensembles under the faithful policy")
RULE = ("each run = one 2-4 component system with molecular masses differing by factors 1-100 and random declared fractions; "
        "interface runs read the selection vector of >= 20 picks, outcome runs generate >= 1500 members; distinct = hash of system "
        "text; non-trivial = at least two components with different molecular mass and at least 20 members generated")
ASSUMPTIONS = [
    "declared fraction of a component = its absolute mass / system mass (README 'System object syntax')",
    "interface part needs deterministic member masses (plain molecules, zero-width gauss chains); checked per run",
    "outcome band: granularity m_max/M_total + 7 sigma (false-alarm ~1e-11 per component), second seed re-confirmation",
]
COMPONENTS = {"real": ["System.generator component selection, Molecule.generate, mixture bookkeeping"],
              "stub": ["3-D embedding", "numpy bit generator (SimRng, faithful policy)"]}


def plan(tier):
    return 420 if tier == "quick" else 5000


def spec_from_seed(run_seed, tier):
    rnd = random.Random(run_seed)
    r_mode = rnd.random()
    mode = "outcome" if r_mode < (0.02 if tier == "quick" else 0.08) else "interface"
    fault = None
    if 0.5 < r_mode < (0.56 if tier == "quick" else 0.62):
        # an ensemble in which one member's generation fails early on (the caller's generator raises inside it): whether the
        # library ends that pass or carries on, the composition of what is generated afterwards is the declared one
        mode = "outcome"
        fault = {"kind": rnd.choice(["rng_raise", "rng_value", "rng_value", "rng_interrupt"]), "gen": 0, "after_yields": rnd.choice([1, 2, 3, 5]),
                 "offset": rnd.randrange(0, 5), "respawn": True}
    for _ in range(30):
        text, tags, sysw = archetypes.gen_system(rnd, {"safe_dist": True, "max_units": 8 if mode == "outcome" else 40},
                                                 deterministic_mass=True, min_components=2)
        if archetypes.token_budget_ok(text):
            break
    return {"kind": "composition", "prop": "C14", "text": text, "tags": sorted(tags), "system_molweight": sysw, "mode": mode, "fault": fault,
            "members": 1500 if mode == "outcome" else rnd.choice([20, 30, 50]),
            "sched": {"seed": rnd.randrange(1 << 48), "choice_policy": "faithful", "draw_policy": "natural", "script": None, "budget": 2000000}}


def _member_masses(ast):
    """deterministic mass of one member of every component (generated separately, outside the system)"""
    g = boot.load()
    out = []
    for m in ast.mols:
        vals = set()
        for seed in (1, 2):
            w = World(Scheduler(seed, choice_policy="faithful"), embed="stub")
            with w:
                mol = g.Molecule(m.text())
                mg = mol.generate(rng=SimRng(w.sched))
                vals.add(round(_heavy_mass(mg), 6))
        out.append(vals)
    return out


def _sigma(q, m, N):
    """std of the mass share of each component for multinomial counts N*q and deterministic masses m (delta method)"""
    q = np.asarray(q)
    m = np.asarray(m)
    mu = float(np.sum(q * m))
    f = q * m / mu
    n = len(q)
    cov = N * (np.diag(q) - np.outer(q, q))
    sig = []
    for i in range(n):
        grad = np.array([((m[i] if k == i else 0.0) - f[i] * m[k]) / (N * mu) for k in range(n)])
        sig.append(math.sqrt(max(0.0, float(grad @ cov @ grad))))
    return sig


def execute(spec):
    text = spec["text"]
    try:
        ast = reader.read_system(text).build()
    except Exception as exc:
        return {"harness_error": f"reader failed: {exc!r}", "violations": []}
    fr, M = sysrun.system_model(ast, spec.get("system_molweight"))
    if fr is None:
        return {"harness_error": "composition workload is under-determined", "violations": []}
    masses_sets = _member_masses(ast)
    if any(len(s) != 1 for s in masses_sets):
        return {"harness_error": f"component mass is not deterministic: {masses_sets}", "violations": []}
    m = [next(iter(s)) for s in masses_sets]
    # scale the system so that the run yields the wanted number of members: same fractions, larger system mass argument
    q_ideal = np.array([f / mi for f, mi in zip(fr, m)])
    q_ideal /= q_ideal.sum()
    mean_mass_ideal = float(np.sum(q_ideal * np.array(m)))
    want_mass = spec["members"] * max(mean_mass_ideal, min(m))
    scale = want_mass / M
    scaled_text, scaled_sysw = _scale(text, spec.get("system_molweight"), scale)
    viols = []
    feats = sorted(spec.get("tags", []))

    def one(seed_shift):
        sk = dict(spec["sched"])
        sk["seed"] = sk["seed"] + seed_shift
        return sysrun.run_system(scaled_text, 1, sk, n_generators=1, faults=[dict(spec["fault"])] if spec.get("fault") else None, props=(),
                                 system_molweight=scaled_sysw, max_steps=10 ** 7, wall=600, check_generate=False,
                                 screen_first=(spec["sched"]["seed"] + seed_shift) % 3 == 0)

    r = one(0)
    if r.get("harness_error"):
        return r
    picks = r.get("picks", [])
    members = r.get("members", [])
    stats = {"runs": 1, "members": len(members), "mode:" + spec["mode"]: 1, "events": r.get("n_events", 0)}
    for k_, v_ in (r.get("stats") or {}).items():
        if k_.startswith("fault:"):
            stats[k_] = v_
    n = len(fr)
    mass_ratio = max(m) / max(min(m), 1e-9)
    stats["mass_ratio_ge_10"] = 1 if mass_ratio >= 10 else 0
    if not members:
        return {"harness_error": f"no member generated for {scaled_text!r}: {r.get('violations')}", "violations": []}
    # ---- interface ---------------------------------------------------------------------------
    observable = len(picks) == len(members)
    p0 = picks[0][0] if picks else [float("nan")] * n
    constant = observable and all(len(p[0]) == len(p0) and all(abs(a - b) <= 1e-12 for a, b in zip(p[0], p0)) for p in picks)
    if not observable:
        # the component pick is not a rng.choice with a probability vector: nothing to read at the interface; the realised
        # shares of this run are judged instead (weak for few members, but an option that is never taken still shows)
        stats["selection_not_observable"] = 1
        spec = dict(spec)
        spec["mode"] = "outcome"
    elif len(p0) != n:
        viols.append({"property": "C14", "invariant": "selection_vector_shape", "msg": f"component pick over {len(p0)} options for {n} components",
                      "features": feats, "input": text})
    elif constant and _pick_to_component(picks, n) is None:
        # the option taken does not determine which component is generated (one option led to two different components):
        # the selection vector says nothing about composition; the realised shares are judged instead
        stats["pick_does_not_determine_component"] = 1
        spec = dict(spec)
        spec["mode"] = "outcome"
    elif constant:
        # option k of the pick may stand for another component than the k-th written one (a reordered option list is legal):
        # the vector is re-indexed by the component that was really generated after each pick
        mapping = _pick_to_component(picks, n)
        if mapping != list(range(n)):
            stats["pick_options_reordered"] = 1
        p0 = [p0[mapping.index(c)] for c in range(n)]
        share = np.array(p0) * np.array(m)
        share = share / share.sum()
        dev = max(abs(s - f) for s, f in zip(share, fr))
        stats["interface_checked"] = 1
        if dev > 1e-9:
            f2 = list(feats)
            if all(abs(a - b) <= 1e-9 for a, b in zip(p0, fr)):
                f2.append("selection=declared_mass_fraction")
            viols.append({"property": "C14", "invariant": "composition_by_selection_law",
                          "msg": f"components are picked with p={[round(x, 6) for x in p0]}; with member masses {[round(x, 3) for x in m]} the long-run mass "
                                 f"shares are {[round(float(x), 6) for x in share]}, declared {[round(x, 6) for x in fr]}", "features": f2, "input": text})
    else:
        stats["adaptive_selection_skipped_interface"] = 1
    # ---- outcome -------------------------------------------------------------------------------
    if spec["mode"] == "outcome":
        def shares(rr):
            tot = [0.0] * n
            for (comp, w) in rr["members"]:
                tot[comp] += w
            T = sum(tot)
            return [t / T for t in tot], T, len(rr["members"])

        sh, T, N = shares(r)
        sig = _sigma(q_ideal, m, N)
        band = [max(m) / T + 7 * s for s in sig]
        bad = [i for i in range(n) if abs(sh[i] - fr[i]) > band[i]]
        stats["outcome_checked"] = 1
        if bad:
            r2 = one(7919)
            sh2, T2, N2 = shares(r2)
            sig2 = _sigma(q_ideal, m, N2)
            bad2 = [i for i in bad if abs(sh2[i] - fr[i]) > max(m) / T2 + 7 * sig2[i]]
            if bad2:
                f2 = list(feats)
                if constant and all(abs(a - b) <= 1e-9 for a, b in zip(p0, fr)):
                    f2.append("selection=declared_mass_fraction")
                i = bad2[0]
                viols.append({"property": "C14", "invariant": "realised_mass_share",
                              "msg": f"component {i}: declared mass fraction {fr[i]:.4f}, realised {sh[i]:.4f} and {sh2[i]:.4f} over {N} / {N2} members "
                                     f"(band {band[i]:.4f}); member masses {[round(x, 2) for x in m]}", "features": f2, "input": text})
    sig_h = hashlib.sha1(text.encode()).hexdigest()
    nontrivial = len(set(round(x, 3) for x in m)) >= 2 and len(members) >= 20
    sample = {"system": text, "declared_fractions": [round(x, 4) for x in fr], "member_masses": [round(x, 2) for x in m],
              "selection_vector": [round(x, 4) for x in p0] if picks else None, "members": len(members), "mode": spec["mode"]}
    return {"violations": viols, "stats": stats, "sig": sig_h, "nontrivial": nontrivial, "sample": sample, "digest": r["digest"], "trace": None}


def _pick_to_component(picks, n):
    """option index -> component generated after it, from the observed (vector, option, component, mass) records.
    None if one option led to different components or two options to the same one; options never taken are filled in
    in written order."""
    mapping = {}
    for (_, i, comp, _) in picks:
        if comp is None:
            continue
        if mapping.setdefault(int(i), comp) != comp:
            return None
    if len(set(mapping.values())) != len(mapping):
        return None
    free_opts = [k for k in range(n) if k not in mapping]
    free_comps = [c for c in range(n) if c not in mapping.values()]
    for k, c in zip(free_opts, free_comps):
        mapping[k] = c
    return [mapping[k] for k in range(n)]


def _scale(text, sysw, scale):
    """multiply every absolute mass specifier (and the system mass argument) by `scale`; percentages stay"""
    import re

    def rep(mm):
        if mm.group(2):
            return mm.group(0)
        x = float(mm.group(1)) * scale
        # (every other scaled mass is written with a signed exponent, a form numbers in a specifier may take)
        return (".|%.12e|" % x) if int(x * 7) % 2 else (".|%r|" % x)

    return re.sub(r"\.\|\s*([0-9.eE+\-]+)\s*(%?)\s*\|", rep, text), (None if sysw is None else sysw * scale)
