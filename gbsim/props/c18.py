"""C18 - atom-graph generation yields trees of whole residues joined along graph edges.

AtomGraph(gen_stochastic_atom_graph(True), rng=SimRng).generate() on Schulz-Zimm molecules of every archetype; every rng
decision (node / edge picks, target draws) is made by the scheduler.  Audit of AtomGraph.graph / to_mol():
connected, sanitises, atoms partition into whole residue instances (all atoms and internal bonds of the token), every
bond between instances is a non-static edge of the stochastic atom graph with the same bond order, instances form a tree;
generation terminates within the decision budget; the same schedule gives the same molecule.
"""
import hashlib
import json
import random
import signal

import networkx as nx
from rdkit import Chem

from .. import archetypes, boot, reader
from ..genrun import WallTimeout, _alarm
from ..seams import DrawDiverges, World
from ..simrng import BudgetExceeded, Scheduler, SimAbort, SimRng
from . import gencommon as gc

LEVEL = "exploration"
TECHNIQUE = ("deterministic simulation: every rng decision of AtomGraph.generate is a scheduled event; residue / tree / edge "
             "correspondence audit of the product against the AST and the stochastic atom graph; same-schedule replay")
RULE = ("each run = one Schulz-Zimm input of a random archetype x one seeded schedule (choice policy x target policy), executed "
        "twice with the recorded outcome script; distinct = hash of (input, outcome script); non-trivial = at least 3 multi-option "
        "decisions and at least 3 residue instances in the product")
ASSUMPTIONS = [
    "trusted: RDKit sanitisation, networkx; residue ground truth from the AST (reader.py / notation.py)",
    "stochastic-graph node n is atom i of token k by cumulative atom counts in residue order (how the library numbers them)",
    "residue instances are recovered from node creation order: a seed atom followed by the rest of its token",
    "only molecules whose every block declares schulz_zimm (the only family AtomGraph supports)",
]
COMPONENTS = {"real": ["StochasticAtomGraph, AtomGraph.generate / to_mol, SchulzZimm.draw_mw"], "stub": ["numpy bit generator (SimRng)"]}
BT = {1.0: 1, 2.0: 2, 3.0: 3, 1.5: 12}
NONDETERMINISM_INVARIANTS = ("same_schedule_different_molecule", "equal_seed_different_molecule")


def plan(tier):
    return 1500 if tier == "quick" else 20000


def spec_from_seed(run_seed, tier):
    rnd = random.Random(run_seed)
    text, tags = archetypes.gen_molecule(rnd, {"branchy": True, "family": "schulz_zimm", "allow_illposed": False})
    # keep z > 1 and small targets: rewrite every distribution to a safe, small schulz_zimm
    import re

    def rep(m):
        Mn = rnd.choice([60, 100, 160, 240])
        D = rnd.choice([1.1, 1.3, 1.6, 1.1, 1.3, 1.6, 1.004])
        if D < 1.01:
            Mn = rnd.choice([500, 800])  # nearly monodisperse grade: Mw - Mn of a few units
        Mw = max(int(Mn * D), Mn + 1)
        return f"|schulz_zimm({Mw}, {Mn})|"

    text = re.sub(r"\|[a-z_]+\([^)]*\)\|", rep, text)
    abort_first = {"at": rnd.choice([0, 1, 2, 3, 5, 8, 13, 21]), "how": rnd.choice(["raise", "interrupt", "value"])} if rnd.random() < 0.12 else None
    return {"kind": "atomgraph", "prop": "C18", "text": text, "tags": sorted(tags), "regenerate": rnd.choice([0, 0, 1, 2]), "abort_first": abort_first,
            "copies": rnd.randrange(1, 1000) if rnd.random() < 0.25 else None,
            # process restart: the same text and generator seeds in fresh interpreters with other string hash seeds
            "restart": ({"seeds": [rnd.randrange(1, 1000) for _ in range(2)], "hashseeds": rnd.sample(range(1, 400), 2)}
                        if rnd.random() < (0.03 if tier == "quick" else 0.02) else None),
            "sched": {"seed": rnd.randrange(1 << 48), "choice_policy": rnd.choice(["faithful", "uniform_support", "rare", "mix", "first", "last"]),
                      "draw_policy": rnd.choice(["natural", "low", "mid", "tails"]), "script": None, "budget": 3000}}


def _generate(g, text, sched, abort_first=None):
    world = World(sched, embed="stub")
    with world:
        mol = g.Molecule(text)
        sg = mol.gen_stochastic_atom_graph(True)
        ag = g.AtomGraph(sg, rng=SimRng(sched))
        if abort_first is not None:
            # a first generation on this object is aborted half-way: the generator raises at its k-th call; the object is
            # then used again (below), which must give a whole molecule as if nothing had happened
            sched.faults[abort_first["at"]] = abort_first["how"]
            try:
                ag.generate()
            except (BudgetExceeded, DrawDiverges):
                pass  # the first generation ended some other way (a draw that does not return is judged on audited runs)
            except SimAbort:
                raise
            except BaseException:
                pass
            sched.faults.clear()
            if sched.fired:
                world.event({"k": "fault", "kind": "first_generation_aborted", "at": abort_first["at"]})
        exc = None
        try:
            ag.generate()
        except (BudgetExceeded, DrawDiverges) as e:
            exc = e
        except SimAbort:
            raise
        except Exception as e:
            exc = e
    return world, sg, ag, exc


def execute(spec):
    g = boot.load()
    text = spec["text"]
    try:
        ast = reader.read_molecule(text).build()
    except Exception as exc:
        return {"harness_error": f"reader failed: {exc!r}", "violations": []}
    feats = sorted(spec.get("tags", []))
    viols = []

    def viol(inv, msg, extra=()):
        viols.append({"property": "C18", "invariant": inv, "msg": msg, "features": feats + list(extra), "input": text})

    old = signal.signal(signal.SIGALRM, _alarm)
    signal.alarm(300)
    try:
        sched = Scheduler(**spec["sched"])
        try:
            world, sg, ag, exc = _generate(g, text, sched, spec.get("abort_first"))
        except SimAbort:
            raise
        except Exception as e:
            viol("graph_construction_raised", f"building the stochastic atom graph raised {e!r}", ["exc=" + type(e).__name__])
            return _result(spec, viols, None, None, {"runs": 1})
        stats = {"runs": 1, "decisions": sched.calls, "events": len(world.log)}
        if spec.get("abort_first") and sched.fired:
            stats["fault:rng_" + spec["abort_first"]["how"]] = 1
        n_multi = sum(1 for e in world.log if e["k"] == "dec" and e.get("kind") == "choice" and sum(1 for x in e["p"] if x > 0) > 1)
        stats["multi_option_decisions"] = n_multi
        if exc is not None and "single source node" in str(exc):
            # "Generation terminates for every graph that has a start node": decide independently whether one exists
            SG = sg.graph
            has_start = any(len(nx.dfs_tree(SG, source=nd)) == SG.number_of_nodes() for nd in SG.nodes)
            if not has_start:
                stats["no_start_node_outside_quantifier"] = 1
                return _result(spec, viols, world, sched, stats, 0)
            viol("start_node_not_found", f"the stochastic atom graph has a node that reaches every other node, but generation refused: {exc!r}")
            return _result(spec, viols, world, sched, stats, n_multi)
        if exc is not None:
            ef = ["exc=" + type(exc).__name__]
            if "updating stopped" in str(exc):
                ef.append("msg=updating stopped")
            if any(e["k"] == "draw_fail" for e in world.log):
                ef.append("draw_fail")
            inv = "generation_does_not_terminate" if isinstance(exc, (BudgetExceeded, DrawDiverges)) else "generation_raised"
            viol(inv, f"AtomGraph.generate: {exc!r}", ef)
            return _result(spec, viols, world, sched, stats, n_multi)
        n_inst = _audit(ast, sg, ag, viol, stats)
        # same schedule, same molecule
        if not viols and not spec.get("abort_first"):
            sched2 = Scheduler(spec["sched"]["seed"], script=list(sched.trace), budget=3000)
            world2, sg2, ag2, exc2 = _generate(g, text, sched2)
            if exc2 is not None or _canon(ag2) != _canon(ag):
                viol("same_schedule_different_molecule", f"replaying the outcome script gave {('exception ' + repr(exc2)) if exc2 else _canon(ag2)} instead of {_canon(ag)}")
            stats["replays"] = 1
        # an AtomGraph object is a sampler: generating again from the same object (how an ensemble is drawn) must again
        # give one whole molecule, whatever the first generation left behind in the object
        if spec.get("regenerate") and not viols:
            for _ in range(spec["regenerate"]):
                world_r = World(sched, embed="stub")
                exc_r = None
                with world_r:
                    try:
                        ag.generate()
                    except (BudgetExceeded, DrawDiverges) as e:
                        exc_r = e
                    except SimAbort:
                        raise
                    except Exception as e:
                        exc_r = e
                stats["regenerations"] = stats.get("regenerations", 0) + 1
                if exc_r is not None:
                    ef = ["exc=" + type(exc_r).__name__, "regenerate"]
                    if "updating stopped" in str(exc_r):
                        ef.append("msg=updating stopped")
                    if any(e["k"] == "draw_fail" for e in world_r.log):
                        ef.append("draw_fail")
                    inv = "generation_does_not_terminate" if isinstance(exc_r, (BudgetExceeded, DrawDiverges)) else "generation_raised"
                    viol(inv, f"AtomGraph.generate called again on the same object: {exc_r!r}", ef)
                    break
                n_before = len(viols)
                _audit(ast, sg, ag, viol, stats)
                for v in viols[n_before:]:
                    v["msg"] = "[generate() called again on the same AtomGraph] " + v["msg"]
                if viols:
                    break
        # equal seeds, equal molecules -- also for an object and its deep copy: both carry a generator in the same state, so
        # each of them generates what a fresh object with that seed generates (real numpy generators here, not the scheduler)
        if spec.get("copies") and not viols:
            import copy as _copy

            import numpy as np

            def gen_with(make):
                w = World(Scheduler(1), embed="stub")
                with w:
                    try:
                        objs = make()
                        out = []
                        for o in objs:
                            o.generate()
                            out.append(_canon(o))
                        return out
                    except (BudgetExceeded, DrawDiverges):
                        return None
                    except SimAbort:
                        raise
                    except Exception as e:
                        return ["exception " + type(e).__name__]

            seed = spec["copies"]
            mol_c = g.Molecule(text)
            sg_c = mol_c.gen_stochastic_atom_graph(True)
            ref = gen_with(lambda: [g.AtomGraph(sg_c, rng=np.random.default_rng(seed))])

            def pair():
                proto = g.AtomGraph(sg_c, rng=np.random.default_rng(seed))
                cp = _copy.deepcopy(proto)
                return [cp, proto] if seed % 2 else [proto, cp]

            both = gen_with(pair)
            stats["copy_pairs"] = 1
            if ref is not None and both is not None and not ref[0].startswith("exception") and any(x != ref[0] for x in both):
                viol("equal_seed_different_molecule", f"a fresh AtomGraph with seed {seed} generates {ref[0]}; an AtomGraph with that seed and its deep copy "
                     f"(generator in the same state) generate {both}")
        if spec.get("restart") and not viols:
            from .. import freshproc

            job = {"job": "atomgraph", "text": text, "seeds": spec["restart"]["seeds"]}
            here = freshproc.run_job(g, job)
            there = freshproc.restart(job, spec["restart"]["hashseeds"])
            stats["fault:process_restart"] = len(there)
            for hs, r in sorted(there.items()):
                if "child_failed" in r:
                    return {"harness_error": f"restarted interpreter (PYTHONHASHSEED={hs}) failed: {r['child_failed']}", "violations": []}
                if "ok" in here and "ok" in r and r != here:
                    viol("equal_seed_different_molecule", f"generator seeds {job['seeds']}: this process generates {here['ok']}, a fresh interpreter "
                         f"(PYTHONHASHSEED={hs}) generates {r['ok']}")
                    break
                if ("exception" in here) != ("exception" in r):
                    viol("equal_seed_different_molecule", f"generator seeds {job['seeds']}: this process gives {here}, a fresh interpreter "
                         f"(PYTHONHASHSEED={hs}) gives {r}")
                    break
        return _result(spec, viols, world, sched, stats, n_multi, n_inst)
    except WallTimeout:
        return {"harness_error": "wall-clock watchdog fired", "violations": []}
    finally:
        signal.alarm(0)
        signal.signal(signal.SIGALRM, old)


def _canon(ag):
    try:
        return Chem.MolToSmiles(ag.to_mol())
    except Exception as exc:
        return "to_mol failed: " + type(exc).__name__


def _result(spec, viols, world, sched, stats, n_multi=0, n_inst=0):
    trace = list(sched.trace) if sched is not None else None
    sig = hashlib.sha1(json.dumps([spec["text"], trace]).encode()).hexdigest()
    for t in spec.get("tags", []):
        if t.startswith("arch:"):
            stats["tag:" + t] = 1
    sample = {"input": spec["text"], "choice_policy": spec["sched"]["choice_policy"], "decisions": stats.get("decisions"), "residue_instances": n_inst}
    return {"violations": viols, "stats": stats, "sig": sig, "nontrivial": n_multi >= 3 and n_inst >= 3, "sample": sample,
            "digest": world.digest() if world is not None else None, "trace": trace}


def _audit(ast, sg, ag, viol, stats):
    res = ast.residues()
    offsets = []
    off = 0
    for t in res:
        offsets.append(off)
        off += t.natoms
    total = off
    SG = sg.graph
    if SG.number_of_nodes() != total:
        viol("stochastic_graph_node_count", f"stochastic atom graph has {SG.number_of_nodes()} nodes, the tokens have {total} atoms")
        return 0

    def tok_of(sn):
        for k in range(len(res) - 1, -1, -1):
            if sn >= offsets[k]:
                return k, sn - offsets[k]
        return None, None

    nonstatic = set()
    for u, v, d in SG.edges(data=True):
        if d.get("static_weight", 0) == 0:
            nonstatic.add((u, v, int(d["bond_type"])))
            nonstatic.add((v, u, int(d["bond_type"])))
    G = ag.graph
    n = G.number_of_nodes()
    if n == 0:
        viol("empty_product", "no atom was generated")
        return 0
    if not nx.is_connected(G):
        viol("not_connected", f"product has {nx.number_connected_components(G)} pieces")
    # instances from creation order
    inst_of = {}
    instances = []
    i = 0
    nodes = sorted(G.nodes())
    if nodes != list(range(n)):
        viol("node_ids", "node ids are not 0..n-1")
        return 0
    while i < n:
        k, a = tok_of(G.nodes[i]["stochastic_node"])
        t = res[k]
        block = list(range(i, min(n, i + t.natoms)))
        atoms = {}
        ok = True
        for nd in block:
            kk, aa = tok_of(G.nodes[nd]["stochastic_node"])
            if kk != k or aa in atoms:
                ok = False
                break
            atoms[aa] = nd
        if not ok or len(atoms) != t.natoms:
            viol("residue_incomplete", f"residue instance of {t.name} starting at atom {i} has {len(atoms) if ok else 'foreign / repeated'} of {t.natoms} atoms "
                 f"(token role: {'end group' if any(t is e for el in ast.elements if hasattr(el, 'ends') for e in el.ends) else 'unit'})",
                 ["end_group_token"] if any(t is e for el in ast.elements if hasattr(el, "ends") for e in el.ends) else [])
            return len(instances)
        for aa, nd in atoms.items():
            inst_of[nd] = len(instances)
            z = t.atoms[aa][0]
            if G.nodes[nd]["atomic_num"] != z:
                viol("residue_atom", f"atom {aa} of {t.name} instance has atomic number {G.nodes[nd]['atomic_num']}, token says {z}")
        instances.append((k, atoms))
        i += t.natoms
    # bonds
    inter = {}
    for u, v, d in G.edges(data=True):
        iu, iv = inst_of[u], inst_of[v]
        bt = int(d["bond_type"])
        if iu == iv:
            k, atoms = instances[iu]
            inv = {nd: aa for aa, nd in atoms.items()}
            key = (min(inv[u], inv[v]), max(inv[u], inv[v]))
            want = res[k].bonds.get(key)
            if want is None or BT.get(want) != bt:
                viol("residue_internal_bond", f"bond {key} (type {bt}) inside an instance of {res[k].name} is not a bond of the token (token: {want})")
        else:
            su, sv = G.nodes[u]["stochastic_node"], G.nodes[v]["stochastic_node"]
            if (su, sv, bt) not in nonstatic:
                ku, au = tok_of(su)
                kv, av = tok_of(sv)
                viol("inter_residue_bond_not_in_graph", f"bond between atom {au} of {res[ku].name} and atom {av} of {res[kv].name} (type {bt}) is no non-static edge of the stochastic atom graph")
            key = (min(iu, iv), max(iu, iv))
            inter[key] = inter.get(key, 0) + 1
    for (k, atoms) in instances:
        t = res[k]
        inv = {nd: aa for aa, nd in atoms.items()}
        have = set()
        for aa, nd in atoms.items():
            for nb in G.neighbors(nd):
                if nb in inv:
                    have.add((min(aa, inv[nb]), max(aa, inv[nb])))
        if have != set(t.bonds):
            viol("residue_bonds_missing", f"instance of {t.name} has internal bonds {sorted(have)}, token has {sorted(t.bonds)}")
            break
    if any(c != 1 for c in inter.values()):
        viol("multi_bond_between_residues", "two residue instances are joined by more than one bond")
    if len(inter) != len(instances) - 1:
        viol("residues_not_a_tree", f"{len(instances)} residue instances joined by {len(inter)} bonds")
    try:
        rm = ag.to_mol()
    except Exception as exc:
        rm = None
        viol("not_sanitisable", f"to_mol() failed: {exc!r}", ["exc=" + type(exc).__name__])
    if rm is not None:
        # the RDKit molecule is the same molecule as the generated graph: atom for atom a copy of the token atom
        # (element, formal charge), bond for bond the graph's edges
        if rm.GetNumAtoms() != n or rm.GetNumBonds() != G.number_of_edges():
            viol("to_mol_differs_from_graph", f"to_mol() has {rm.GetNumAtoms()} atoms / {rm.GetNumBonds()} bonds, the generated graph {n} / {G.number_of_edges()}")
        else:
            for (k, atoms) in instances:
                t = res[k]
                bad = None
                for aa, nd in atoms.items():
                    a = rm.GetAtomWithIdx(nd)
                    z, q = t.atoms[aa][0], t.atoms[aa][1]
                    if a.GetAtomicNum() != z or a.GetFormalCharge() != q:
                        bad = f"atom {aa} of an instance of {t.name} is {a.GetSymbol()}{a.GetFormalCharge():+d} in to_mol(), the token says Z={z} charge {q:+d}"
                        break
                if bad:
                    viol("residue_atom", bad)
                    break
            if len(Chem.GetMolFrags(rm)) != 1:
                viol("not_connected", "to_mol() has more than one fragment")
    stats["residue_instances"] = len(instances)
    stats["atoms"] = n
    return len(instances)


shrink_candidates = gc.shrink_candidates
