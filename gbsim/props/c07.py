"""C07 - a stochastic object stops growing at the first unit that exceeds its drawn mass."""
from . import gencommon as gc

LEVEL = "exploration"
TECHNIQUE = ("deterministic simulation: the drawn target is a scheduled event (natural quantiles, tails, forced ties from a "
             "two-pass run, targets below one unit / negative); stop rule evaluated on the masses after every kept growth attach")
RULE = ("each run = one input x one seeded schedule x one target plan (natural / tails / forced value / forced tie with the "
        "cumulative mass after unit k, +-1e-9); the stop rule is evaluated per stochastic object; distinct = hash of (input, "
        "decision sequence); non-trivial = at least 3 multi-option decisions")
ASSUMPTIONS = gc.ASSUMPTIONS_COMMON + [
    "masses are read with the library's own MolGen.weight on its own molecule before / after each attach, so ties are exact",
    "in forced-target runs the distribution code is bypassed (stub), counted in counters['draw:forced']",
    "the mass of an end group that *starts* a chain is not counted towards the block (the generator's law, as C19 states it)",
]
COMPONENTS = gc.COMPONENTS
PROPS = ("C07",)


def plan(tier):
    return 2400 if tier == "quick" else 40000


def spec_from_seed(run_seed, tier):
    return gc.make_spec(run_seed, tier, "C07", forced_prob=0.5)


def execute(spec):
    return gc.execute(spec, PROPS)


shrink_candidates = gc.shrink_candidates
