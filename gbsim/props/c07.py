"""C07 - a stochastic object stops growing at the first unit that exceeds its drawn mass."""
from . import gencommon as gc

LEVEL = "exploration"
TECHNIQUE = ("deterministic simulation: the drawn target is a scheduled event (natural quantiles, tails, forced ties from a "
             "two-pass run, targets below one unit / negative); stop rule evaluated on the masses after every kept growth attach")
RULE = ("each run = one input x one seeded schedule x one target plan (natural / tails / forced value / forced tie with the "
        "cumulative mass after unit k, +-1e-9); the stop rule is evaluated per stochastic object; distinct = hash of (input, "
        "decision sequence); non-trivial = at least 3 multi-option decisions")
ASSUMPTIONS = gc.ASSUMPTIONS_COMMON + [
    "masses are read with the library's own MolGen.weight on its own molecule before / after each attach, so ties are exact",
    "in forced-target runs the distribution code is bypassed (stub), counted in counters['draw:forced']",
    "the mass of an end group that *starts* a chain is not counted towards the block (the generator's law, as C19 states it)",
]
COMPONENTS = gc.COMPONENTS
PROPS = ("C07",)


def plan(tier):
    return 2400 if tier == "quick" else 40000


def spec_from_seed(run_seed, tier):
    return gc.make_spec(run_seed, tier, "C07", forced_prob=0.5)


ENDURANCE_UNITS = {"quick": 12000, "thorough": 30000}


def spec_for_index(idx, run_seed, tier):
    """Run 0 of a batch (runs 0-2 in the thorough tier) is one long history on ONE parsed object: generation after generation
    until the object has attached more than 12 000 (30 000) repeat units in its lifetime, the stop rule audited every time.
    Whatever an object counts or accumulates over its lifetime must not reach the stop rule."""
    import random

    if idx < (1 if tier == "quick" else 3):
        rnd = random.Random(run_seed)
        unit = rnd.choice(["{0}CC{1}", "{0}CC(C){1}", "{0}CCO{1}", "{0}C{1}"])
        sym = rnd.choice(["$", "<>"])
        a, b = ("[$]", "[$]") if sym == "$" else ("[<]", "[>]")
        lt, rt = ("[$]", "[$]") if sym == "$" else ("[>]", "[<]")
        from .. import archetypes

        m = archetypes.unit_mass(unit)
        law = rnd.choice(["|gauss(%r, %r)|" % (round(30 * m, 1), round(6 * m, 1)), "|uniform(%d, %d)|" % (int(15 * m), int(45 * m)), "|poisson(%r)|" % round(28 * m, 1)])
        text = rnd.choice(["C", "[H]", "CC"]) + "{" + lt + unit.format(a, b) + rt + "}" + law + rnd.choice(["C", "F", "[H]"])
        return {"kind": "endurance", "prop": "C07", "text": text, "units": ENDURANCE_UNITS[tier], "seed": rnd.randrange(1 << 40), "tags": ["endurance"]}
    return spec_from_seed(run_seed, tier)


def execute(spec):
    if spec.get("kind") == "endurance":
        return _execute_endurance(spec)
    return gc.execute(spec, PROPS)


def _execute_endurance(spec):
    import hashlib

    from .. import genrun, reader

    text = spec["text"]
    try:
        ast = reader.read_molecule(text).build()
    except Exception as exc:
        return {"harness_error": f"reader failed: {exc!r}", "violations": []}
    obj = None
    units = 0
    n_gen = 0
    viols = []
    digests = []
    events = 0
    pols = ["faithful", "uniform_support", "sticky", "rare"]
    while units < spec["units"] and n_gen < 4000:
        sk = {"seed": spec["seed"] + n_gen, "choice_policy": pols[n_gen % len(pols)], "draw_policy": "natural", "script": None, "budget": 6000}
        out = genrun.run_molecule(text, sk, props=PROPS, embed="stub", cap_mass=None, wall=150, ast=ast, reuse_obj=obj)
        if out.harness_error:
            return {"harness_error": out.harness_error, "violations": []}
        if isinstance(out.exc, genrun.WallTimeout):
            return {"harness_error": "wall-clock watchdog fired in an endurance run", "violations": []}
        obj = out.mol_obj if obj is None else obj
        n_gen += 1
        digests.append(out.world.digest() if out.world else "")
        events += len(out.world.log) if out.world else 0
        recs = getattr(out.audit, "stop_records", []) if out.audit else []
        units += sum(len(r["added"]) for r in recs)
        if out.violations:
            for v in out.violations:
                v["msg"] = f"[generation {n_gen} from one parsed object, {units} units attached over its lifetime] " + v["msg"]
                v["features"] = ["endurance"]
                v["input"] = text
            viols = out.violations
            break
        if out.exc is not None:
            break
    stats = {"runs": 1, "endurance_runs": 1, "endurance_generations": n_gen, "endurance_units": units, "events": events}
    sig = hashlib.sha1((text + str(spec["seed"])).encode()).hexdigest()
    sample = {"kind": "endurance", "input": text, "generations": n_gen, "units_attached": units}
    return {"violations": viols, "stats": stats, "sig": sig, "nontrivial": n_gen >= 50, "sample": sample,
            "digest": hashlib.sha256("".join(digests).encode()).hexdigest(), "trace": None}


def shrink_candidates(spec):
    if spec.get("kind") == "endurance":
        return
    yield from gc.shrink_candidates(spec)
