"""C05 - a generated molecule is a tree of whole, unmodified copies of the written tokens."""
import hashlib
import json
import random

from . import gencommon as gc

LEVEL = "exploration"
TECHNIQUE = "deterministic simulation: seeded scheduler as the random generator + residue-partition / isomorphism / tree / sanitisation / mass audit of every returned molecule"
RULE = ("each run = one generated input (archetype or README/SI string) x one seeded schedule (choice policy x draw policy); "
        "every attach event (kept and discarded work) is audited; distinct = distinct hash of (input text, sequence of "
        "(decision kind, #options, option taken)); non-trivial = at least 3 decisions with more than one possible outcome; "
        "3 % of the runs couple two or three separately generated open-ended molecules through MolGen.attach_other instead "
        "(the attached part then has many residues, which generation itself never passes)")
ASSUMPTIONS = gc.ASSUMPTIONS_COMMON + [
    "descriptor bonds other than single cannot be generated at all on this tree (fragment SMILES '=CC=' is invalid); they are "
    "exercised by C06's known finding, not here",
]
COMPONENTS = gc.COMPONENTS
PROPS = ("C05",)

# open-ended pieces (one descriptor stays open after generation) for the coupling runs
COUPLING_PIECES = [
    "CC{[$][$]CC([$])c1ccccc1[$]}|gauss(%d, 20)|", "OC{[$][$]CCO[$], [$]CC(C)O[$][$]}|uniform(%d, 200)|", "N{[$][$]C(=O)CCCCCN[$][$]}|poisson(%d)|",
    "F{[$][$]CC(C)(C(=O)OC)[$][$]}|gauss(%d, 5)|", "C{[>][<]CC[>][<]}|gauss(%d, 10)|", "Cl{[>][<]CC([>])C#N[<]}|uniform(%d, 160)|",
    "[H]{[>][<][Si](C)(C)O[>][<]}|poisson(%d)|", "CC[$]", "OCC[>]",
    # parts whose open descriptor fits none of the others of their family (another id): offered pairs are refused
    "CC[$2]", "O{[$2][$2]CC[$2][$2]}|gauss(%d, 10)|",
]
# cores with two or three open descriptors: arms are attached one after another
COUPLING_CORES = ["[$]C([$])[$]", "[$]c1cc([$])cc([$])c1", "[$]CC[$]", "[<]CC(C[<])C[<]", "[<]N(C)[<]", "[$][Si](C)(C)[$]"]


def plan(tier):
    return 2400 if tier == "quick" else 40000


def spec_from_seed(run_seed, tier):
    rnd = random.Random(run_seed ^ 0x5C05)
    if rnd.random() < 0.03:
        core = rnd.choice(COUPLING_CORES + [None, None])
        sym = "$" if core is None or "$" in core else ">"  # arms that fit the core's open descriptors ('<' core takes '>' arms)
        fit = [p for p in COUPLING_PIECES if ("$" in p) == (sym == "$")]
        pieces = [{"text": (p % rnd.choice([60, 90, 140])) if "%d" in p else p, "seed": rnd.randrange(1000)} for p in
                  (rnd.choice(fit) for _ in range(rnd.choice([2, 2, 3])))]
        return {"kind": "coupling", "prop": "C05", "core": core, "pieces": pieces, "reverse": rnd.random() < 0.3}
    return gc.make_spec(run_seed, tier, "C05", forced_prob=0.05)


def execute(spec):
    if spec.get("kind") == "coupling":
        return _execute_coupling(spec)
    return gc.execute(spec, PROPS)


def _execute_coupling(spec):
    """Separately generated molecules joined through the public MolGen.attach_other: the product must again be a tree of whole
    residues -- atoms and bonds of both parts plus exactly one bond, residue graph = both graphs plus exactly one edge."""
    import networkx as nx
    import numpy as np
    from rdkit import Chem
    from rdkit.Chem import Descriptors

    from .. import boot
    from ..seams import World
    from ..simrng import Scheduler, SimAbort

    g = boot.load()
    world = World(Scheduler(1), embed="stub")
    viols = []
    stats = {"runs": 1, "coupling_runs": 1, "couplings": 0}

    def viol(inv, msg):
        viols.append({"property": "C05", "invariant": inv, "msg": msg, "features": ["coupling"], "input": [p["text"] for p in spec["pieces"]]})

    def snapshot(mg):
        m = mg._mol
        return {"atoms": m.GetNumAtoms(), "bonds": m.GetNumBonds(), "nodes": mg.graph.number_of_nodes(), "edges": mg.graph.number_of_edges(),
                "descs": len(mg.bond_descriptors), "mass": float(Descriptors.HeavyAtomMolWt(m)),
                "elems": sorted(a.GetAtomicNum() for a in m.GetAtoms())}

    with world:
        try:
            parts = []
            for p in spec["pieces"]:
                if "{" in p["text"]:
                    parts.append(g.Molecule(p["text"]).generate(rng=np.random.default_rng(p["seed"])))
                else:
                    parts.append(g.SmilesToken(p["text"], 0, 0).generate())
            base = g.SmilesToken(spec["core"], 0, 0).generate() if spec["core"] else parts.pop(0)
        except SimAbort:
            raise
        except Exception as exc:
            return {"harness_error": f"coupling workload could not be generated: {exc!r}", "violations": []}
        for other in parts:
            pair = None
            for i, a in enumerate(base.bond_descriptors):
                for j, b in enumerate(other.bond_descriptors):
                    if a.is_compatible(b):
                        pair = (i, j)
                        break
                if pair:
                    break
            if pair is not None and spec.get("reverse") and len(parts) == 1:
                base, other, pair = other, base, (pair[1], pair[0])
            # a refused attachment first (fault: the caller offers an incompatible pair): it must raise and leave both parts as
            # they were -- the accepted attachment that follows is audited against the snapshots taken BEFORE the refusal
            sa, sb = snapshot(base), snapshot(other)
            bad = [(i, j) for i, a in enumerate(base.bond_descriptors) for j, b in enumerate(other.bond_descriptors) if not a.is_compatible(b)]
            if bad and spec.get("refuse_first", True):
                i, j = bad[len(bad) // 2]
                try:
                    base.attach_other(i, other, j)
                    viol("incompatible_pair_attached", f"attach_other joined the incompatible descriptors {base.bond_descriptors} / {other.bond_descriptors}")
                    break
                except SimAbort:
                    raise
                except RuntimeError:
                    stats["fault:refused_attach"] = stats.get("fault:refused_attach", 0) + 1
                except Exception as exc:
                    viol("coupling_raised", f"attach_other of an incompatible pair raised {exc!r} (a RuntimeError refusal was expected)")
                    break
                if snapshot(base) != sa or snapshot(other) != sb or abs(float(base.weight) - sa["mass"]) > 1e-6:
                    viol("attached_fragment_modified", f"a refused attach_other changed the parts: {snapshot(base)} / weight {float(base.weight)} vs {sa}")
                    break
            if pair is None:
                continue
            at_a = base.bond_descriptors[pair[0]].atom_bonding_to
            at_b = other.bond_descriptors[pair[1]].atom_bonding_to
            try:
                res = base.attach_other(pair[0], other, pair[1])
            except SimAbort:
                raise
            except Exception as exc:
                viol("coupling_raised", f"attach_other of two compatible open descriptors raised {exc!r}")
                break
            stats["couplings"] += 1
            sr = snapshot(res)
            if sr["atoms"] != sa["atoms"] + sb["atoms"] or sr["elems"] != sorted(sa["elems"] + sb["elems"]):
                viol("partition", f"coupled molecule has {sr['atoms']} atoms, the parts have {sa['atoms']} + {sb['atoms']}")
            if sr["bonds"] != sa["bonds"] + sb["bonds"] + 1:
                viol("inter_residue_bonds", f"coupled molecule has {sr['bonds']} bonds, the parts have {sa['bonds']} + {sb['bonds']} (+1 expected)")
            elif res._mol.GetBondBetweenAtoms(at_a, sa["atoms"] + at_b) is None:
                viol("inter_residue_bonds", f"no bond between the two attachment atoms {at_a} and {sa['atoms'] + at_b} of the coupled parts")
            if sr["nodes"] != sa["nodes"] + sb["nodes"] or sr["edges"] != sa["edges"] + sb["edges"] + 1 or not nx.is_tree(res.graph):
                viol("residue_graph", f"MolGen.graph of the coupled molecule has {sr['nodes']} nodes / {sr['edges']} edges "
                     f"(tree: {nx.is_tree(res.graph) if sr['nodes'] else False}); the parts have {sa['nodes']} / {sa['edges']} and {sb['nodes']} / {sb['edges']}")
            if sr["descs"] != sa["descs"] + sb["descs"] - 2:
                viol("open_list_update", f"{sr['descs']} open descriptors after coupling parts with {sa['descs']} and {sb['descs']}")
            if abs(sr["mass"] - sa["mass"] - sb["mass"]) > 1e-6 or abs(float(res.weight) - sr["mass"]) > 1e-6:
                viol("mass_sum", f"heavy-atom mass {sr['mass']} (accessor {float(res.weight)}) != {sa['mass']} + {sb['mass']}")
            try:
                m = res.mol
                if len(Chem.GetMolFrags(m)) != 1:
                    viol("connected", "coupled molecule has more than one fragment")
            except Exception as exc:
                viol("sanitise", f"coupled molecule does not pass sanitisation: {exc!r}")
            if viols:
                break
            base = res
    sig = hashlib.sha1(json.dumps(spec, sort_keys=True).encode()).hexdigest()
    return {"violations": viols, "stats": stats, "sig": sig, "nontrivial": stats["couplings"] >= 1,
            "sample": {"pieces": [p["text"] for p in spec["pieces"]], "core": spec["core"]}, "digest": world.digest(), "trace": None}


def shrink_candidates(spec):
    if spec.get("kind") == "coupling":
        if len(spec["pieces"]) > 2:
            for i in range(len(spec["pieces"])):
                c = json.loads(json.dumps(spec))
                del c["pieces"][i]
                yield c
        return
    yield from gc.shrink_candidates(spec)
