"""C06 - well-posed molecules generate to completion, in the written element order."""
from . import gencommon as gc

LEVEL = "exploration"
TECHNIQUE = ("deterministic simulation: adversarial seeded schedules (sticky / rare / uniform-support choices, extreme and forced "
             "targets) through the real generator; completion + element-order audit; liveness as decision budget")
RULE = ("each run = one well-posed input with closed outer ends x one seeded schedule; a run fails if generation raises, exceeds "
        "the decision budget, or the product violates the completion / order audit; distinct = hash of (input text, decision "
        "sequence); non-trivial = at least 3 multi-option decisions")
ASSUMPTIONS = gc.ASSUMPTIONS_COMMON + [
    "well-posedness is by construction of the archetypes (every descriptor type that can be open has a compatible repeat-unit "
    "descriptor and a compatible end group or is the reserved terminal), see DESIGN 3",
    "liveness is a decision budget (6000 sampling calls per run) plus an evaluation budget per draw, not a wall clock",
]
COMPONENTS = gc.COMPONENTS
PROPS = ("C06",)


def plan(tier):
    return 2400 if tier == "quick" else 40000


def spec_from_seed(run_seed, tier):
    # adversarial mix: the scheduler tries to strand a descriptor
    return gc.make_spec(run_seed, tier, "C06", choice_weights=[1, 3, 3, 3, 2, 2, 1, 1], forced_prob=0.15)


def execute(spec):
    return gc.execute(spec, PROPS)


shrink_candidates = gc.shrink_candidates
