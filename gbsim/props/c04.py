"""C04 - generation only ever bonds compatible, unused descriptors with their bond order."""
from . import gencommon as gc

LEVEL = "exploration"
TECHNIQUE = "deterministic simulation: seeded scheduler as the random generator + per-attach bond audit against the AST"
RULE = ("each run = one generated input (archetype or README/SI string) x one seeded schedule (choice policy x draw policy); "
        "every attach event (kept and discarded work) is audited; distinct = distinct hash of (input text, sequence of "
        "(decision kind, #options, option taken)); non-trivial = at least 3 decisions with more than one possible outcome")
ASSUMPTIONS = gc.ASSUMPTIONS_COMMON + [
    "descriptor bonds other than single cannot be generated at all on this tree (fragment SMILES '=CC=' is invalid); they are "
    "exercised by C06's known finding, not here",
]
COMPONENTS = gc.COMPONENTS
PROPS = ("C04",)


def plan(tier):
    return 2400 if tier == "quick" else 40000


def spec_from_seed(run_seed, tier):
    return gc.make_spec(run_seed, tier, "C04", forced_prob=0.05)


def execute(spec):
    return gc.execute(spec, PROPS)


shrink_candidates = gc.shrink_candidates
