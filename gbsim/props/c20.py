"""C20 - force-field typing is total, element-consistent, numbering- and history-free.

One run = 2-3 molecules of typable chemistry generated under seeded generators, then a seeded history of typing
calls (default files, byte-identical copies under other names, mixed, renumbered atoms, a partially generated
molecule that must be refused) with faults on the simulated file layer (open errors, read errors mid-file).  After every
call: totality and element masses, equality with the baseline (first call in a pristine forked process), and
after a faulted call (which may raise OSError) the next call with good files equals the baseline again.
"""
import copy
import hashlib
import json
import os
import random
import signal

import numpy as np
from rdkit import Chem

from .. import archetypes, boot, simfs
from ..genrun import WallTimeout, _alarm
from ..seams import World
from ..simrng import Scheduler, SimAbort
from . import c10

LEVEL = "fault_enumeration"
TECHNIQUE = ("deterministic simulation: seeded histories of typing calls over a simulated file layer with open / read faults, "
             "checked against a first-call baseline from pristine forked processes")
RULE = ("each run = 2-3 generated molecules x a seeded history of 6-16 typing calls (defaults, copies of the bundled files under "
        "other names, mixed, renumbered atoms, refused partial molecule) with 0-3 file faults placed at open calls of the history; "
        "distinct = hash of (molecules, call list, fault plan); non-trivial = at least 4 typing results compared with the baseline "
        "and at least one call with explicit file names or one fault")
ASSUMPTIONS = [
    "element masses from RDKit's periodic table, tolerance 0.05",
    "copies of the bundled files are provided by the simulated file layer (seam forcefield_helper.open), byte-identical",
    "only *error* faults are injected (open errors, EIO while reading); silent short reads are out of scope: the library cannot detect them",
    "renumbering goes through forcefield_helper.get_assignment_class(...).get_type_assignments(mol), the object MolGen itself uses",
]
COMPONENTS = {"real": ["forcefield_helper readers, SMARTS matching, cache, MolGen.get_forcefield_types"],
              "stub": ["file system (simulated layer serving the bundled files)", "3-D embedding"]}

FF_UNITS = ["{0}CC{1}", "{0}CC({1})C", "{0}CC({1})c1ccccc1", "{0}CCO{1}", "{0}CC({1})C(=O)OC", "{0}COC{1}", "{0}C(C)C{1}", "{0}CC({1})O",
            "{0}CC({1})C#N", "{0}CC(Cl){1}", "{0}CC({1})C(=O)N", "{0}CC({1})C(=O)O", "{0}CC({1})OC(=O)C", "{0}NCC{1}", "{0}CC(F){1}", "{0}CC({1})Br",
            "{0}CSC{1}", "{0}C=C{1}",
            # ring systems (fused hetero-aromatics carry ring-size rules: r5 / r6 primitives), substituted rings, ring units
            "{0}CC({1})c1c(C)oc2ccccc12", "{0}CC({1})c1ccc2ccccc2n1", "{0}CC({1})c1ccc2ccccc2c1", "{0}CC({1})c1cc(C)nc2ccccc12",
            "{0}CC({1})c1ccc2OCOc2c1", "{0}CC({1})C1CCCCC1", "{0}CC({1})c1ccncc1", "{0}CC({1})c1cccs1", "{0}CC({1})c1ccco1",
            "{0}CC({1})c1ccc(C)cc1", "{0}CC({1})c1ccc(O)cc1", "{0}CC({1})c1ccc(Cl)cc1", "{0}CC({1})N1CCCC1=O", "{0}CC({1})n1ccnc1",
            "{0}c1ccc(cc1){1}", "{0}Cc1ccc(cc1)C{1}", "{0}CC({1})c1c(C)sc2ccccc12", "{0}CC({1})c1cc2ccccc2o1", "{0}CC({1})c1cc2ccccc2s1"]
# pendant groups on a vinyl backbone, all typable by the bundled rule set on the unchanged tree (heterocycles, rings of every
# size, carbonyl / sulfur / phosphorus / nitrogen functions, substituted phenyls), plus a few the rule set cannot type
# (the call must then raise the assignment error with the partial result)
FF_PENDANTS = ['c1cscn1', 'c1ccns1', 'c1cocn1', 'c1ccno1', 'c1ncco1', 'c1nccs1', 'c1cnco1', 'c1cncs1', 'c1ccn(C)n1', 'c1cn(C)cn1', 'c1ccn(C)c1',
               'c1ncccn1', 'c1cnccn1', 'c1ccnnc1', 'c1nc2ccccc2s1', 'c1nc2ccccc2o1', 'c1cn(C)c2ccccc12', 'C1CC1', 'C1CCC1', 'C1CCCC1', 'C1CCOC1',
               'C1CCCO1', 'C1CCNC1', 'C1CCN(C)C1', 'N1CCCC1', 'N1CCOCC1', 'C(=O)C', 'C=O', 'C(=O)NC', 'C(=O)N(C)C', 'NC(=O)C', 'N(C)C(=O)C',
               'OC(=O)N', 'NC(=O)OC', 'OC(=O)OC', 'S(=O)(=O)C', 'S(=O)C', 'SC', 'SSC', 'CS', 'P(=O)(OC)OC', '[N+](=O)[O-]', 'C#C', 'C=C',
               'C(Cl)(Cl)Cl', 'CBr', 'CI', 'I', 'N(C)C', 'NC', 'N', '[NH3+]', 'C(=O)[O-]', 'OCC1CO1', 'C1CO1', 'c1ccc(N)cc1', 'c1ccc(C#N)cc1',
               'c1ccc([N+](=O)[O-])cc1', 'c1ccc(OC)cc1', 'c1ccc(C(=O)O)cc1', 'c1ccc(S)cc1', 'c1ccc(Br)cc1', 'c1ccc(I)cc1', 'c1ccc(C(F)(F)F)cc1',
               'c1c(F)c(F)c(F)c(F)c1F', '[Si](C)(C)C', 'C(=O)OC(C)(C)C', 'C(=O)OCCO', 'OC', 'OCC', 'OC(C)=O', 'C(C)=O', 'CO', 'CCO', 'C(O)CO',
               'CN', 'CCN',
               # isotope labels (deuterated / 13C methyl, labelled ring): an isotope is not an element, the element's parameter set applies
               'C([2H])([2H])[2H]', '[13CH3]', 'C[13CH3]', 'OC([2H])([2H])[2H]', 'c1ccc([13CH3])cc1', 'C(=O)OC([2H])([2H])[2H]']
FF_PENDANTS_UNTYPABLE = ['C(=O)Cl', 'C(F)(F)F', 'OO', 'N=C=O', 'B(O)O']
FF_ENDS = ["[H]", "C", "O", "CC", "OC", "c1ccccc1", "C(C)(C)C", "F", "N", "Cl", "Br", "C#N", "C(=O)O", "S",
           "Cc1cc2ccccc2o1", "Cc1ccc2ccccc2n1", "c1ccc2ccccc2c1", "Cc1ccco1", "[2H]", "C([2H])([2H])[2H]", "[13CH3]", "O[2H]"]
FF_PREFIX = ["[H]", "C", "O", "CC", "CO", "c1ccccc1", "C(C)(C)C", "F", "N", "Cl", "Br", "N#CC", "OC(=O)C", "S", "[2H]", "[2H]C([2H])([2H])C", "[13CH3]"]
CALLS = ["default", "default_explicit_none", "copies", "copies", "rules_copy_only", "params_copy_only", "renumbered", "partial",
         "other_copies", "alt_params", "alt_params"]


def plan(tier):
    return 480 if tier == "quick" else 6000


def ff_molecule(rnd):
    n_u = rnd.choice([1, 1, 2])
    units = rnd.sample(FF_UNITS, n_u)
    for k in range(n_u):
        r = rnd.random()
        if r < 0.45:
            units[k] = "{0}CC({1})" + rnd.choice(FF_PENDANTS)
        elif r < 0.49:
            units[k] = "{0}CC({1})" + rnd.choice(FF_PENDANTS_UNTYPABLE)
    ut = ", ".join(u.format("[<]", "[>]") for u in units)
    T = rnd.choice([40, 80, 150])
    dist = rnd.choice([f"|gauss({T}, {T // 4})|", f"|uniform({T // 2}, {T})|", f"|poisson({T})|"])
    if rnd.random() < 0.5:
        # a prefix is attached through its LAST written atom, a suffix / end group through its first
        return rnd.choice(FF_PREFIX) + "{[>]" + ut + "[<]}" + dist + rnd.choice(FF_ENDS)
    return "{[]" + ut + "; [<]" + rnd.choice(FF_ENDS) + ", [>]" + rnd.choice(FF_ENDS) + "[]}" + dist


def spec_from_seed(run_seed, tier):
    rnd = random.Random(run_seed)
    mols = [{"text": ff_molecule(rnd), "seed": rnd.randrange(100)} for _ in range(rnd.choice([2, 2, 3]))]
    calls = []
    for _ in range(rnd.choice([6, 8, 12, 16])):
        calls.append({"call": rnd.choice(CALLS), "mol": rnd.randrange(len(mols)), "perm_seed": rnd.randrange(1000)})
    faults = {}
    if rnd.random() < 0.6:
        for _ in range(rnd.choice([1, 1, 2, 3])):
            faults[str(rnd.randrange(0, 2 * len(calls)))] = rnd.choice(["enoent", "eacces", "eio_open", "read_error@%d" % rnd.choice([0, 5, 40, 300])])
    spec = {"kind": "typing", "prop": "C20", "mols": mols, "calls": calls, "faults": faults}
    if rnd.random() < 0.03:
        # process restart: the first molecule typed in fresh interpreters under other string hash seeds
        spec["restart"] = {"hashseeds": rnd.sample(range(1, 100000), 2)}
    if tier == "thorough" and rnd.random() < 0.25:
        # crash-point enumeration: the same history once per (open call, fault kind); execute() loops over them
        spec["enumerate_faults"] = True
    return spec


def _ff_tuple(p):
    return (p.bond_type_name, round(float(p.mass), 6), round(float(p.charge), 6), round(float(p.sigma), 8), round(float(p.epsilon), 8), int(p.bond_type_id))


def typing_outcome(g, mg, rule=None, param=None, via="method"):
    """('ok', per-atom tuples in atom order, elements) | ('ff_error', n_assigned, natoms) | ('exc', name)"""
    try:
        if via == "property":
            ff, mol = mg.forcefield_types
        else:
            ff, mol = mg.get_forcefield_types(rule, param)
    except g.forcefield_helper.FfAssignmentError as exc:
        d = getattr(exc, "incomplete_ff_dict", None)
        m = getattr(exc, "mol", None)
        return ("ff_error", None if d is None else len(d), None if m is None else m.GetNumAtoms())
    except SimAbort:
        raise
    except OSError as exc:
        return ("oserror", type(exc).__name__)
    except Exception as exc:
        return ("exc", type(exc).__name__, str(exc)[:120])
    rows = []
    for i in range(mol.GetNumAtoms()):
        p = ff.get(i)
        rows.append(None if p is None else _ff_tuple(p))
    return ("ok", rows, [a.GetAtomicNum() for a in mol.GetAtoms()], len(ff))


def baseline_typing(req):
    """runs in a pristine child (called from c10._baseline_compute)"""
    g = boot.load()
    w = World(Scheduler(1), embed="stub")
    w.attach_limit = 10 ** 9
    w.draw_limit = 10 ** 9
    w.simfs = simfs.SimFS(w, os.path.join(os.path.dirname(g.__file__), "data"))
    with w:
        obj = g.Molecule(req["text"])
        mg = obj.generate(rng=np.random.default_rng(req["seed"]))
        if req.get("rule") or req.get("param"):
            return typing_outcome(g, mg, req.get("rule"), req.get("param"), "method") + (mg.smiles,)
        return typing_outcome(g, mg, None, None, "property") + (mg.smiles,)


def execute(spec):
    if spec.get("enumerate_faults"):
        # fault-free pass counts the opens of this history; then every open index x every error kind is injected in turn
        base = dict(spec)
        base["enumerate_faults"] = False
        base["faults"] = {}
        r0 = _execute_one(base)
        if r0.get("harness_error") or r0["violations"]:
            return r0
        n_open = int(r0["stats"].get("opens", 0))
        agg = r0
        for idx in range(min(n_open, 24)):
            for kind in ("enoent", "eio_open", "read_error@7"):
                sp = dict(base)
                sp["faults"] = {str(idx): kind}
                r = _execute_one(sp)
                if r.get("harness_error"):
                    return r
                for k, v in r["stats"].items():
                    if isinstance(v, (int, float)):
                        agg["stats"][k] = agg["stats"].get(k, 0) + v
                agg["stats"]["enumerated_crash_points"] = agg["stats"].get("enumerated_crash_points", 0) + 1
                if r["violations"]:
                    for v in r["violations"]:
                        v["msg"] = f"[fault {kind} at open #{idx}] " + v["msg"]
                    agg["violations"] = r["violations"]
                    agg["resolved_spec"] = sp
                    return agg
        agg["stats"]["runs"] = 1
        return agg
    return _execute_one(spec)


def _execute_one(spec):
    g = boot.load()
    c10._ensure_server()
    world = World(Scheduler(1), embed="stub")
    world.attach_limit = 10 ** 9
    world.draw_limit = 10 ** 9
    data_dir = os.path.join(os.path.dirname(g.__file__), "data")
    fs = simfs.SimFS(world, data_dir)
    fs.faults = {int(k): v for k, v in spec["faults"].items()}
    world.simfs = fs
    viols = []
    stats = {"runs": 1, "typing_calls": 0, "results_compared": 0, "explicit_file_calls": 0, "refusals_checked": 0, "renumbered_calls": 0}
    pt = Chem.GetPeriodicTable()

    def viol(inv, msg, feats=()):
        viols.append({"property": "C20", "invariant": inv, "msg": msg, "features": list(feats), "input": [m["text"] for m in spec["mols"]]})

    old = signal.signal(signal.SIGALRM, _alarm)
    signal.alarm(700)
    try:
        with world:
            mgs = []
            bases = []
            for m in spec["mols"]:
                b = c10.baseline({"what": "typing", "text": m["text"], "kind": "molecule", "seed": m["seed"]})
                if b[0] == "harness_exc":
                    return {"harness_error": f"baseline typing failed: {b}", "violations": []}
                bases.append(b)
                try:
                    mg = g.Molecule(m["text"]).generate(rng=np.random.default_rng(m["seed"]))
                except Exception as exc:
                    return {"harness_error": f"workload molecule could not be generated: {m['text']!r} {exc!r}", "violations": []}
                mgs.append(mg)
            for ci, c in enumerate(spec["calls"]):
                mg = mgs[c["mol"]]
                base = bases[c["mol"]]
                kind = c["call"]
                if kind == "alt_params":
                    m = spec["mols"][c["mol"]]
                    base = c10.baseline({"what": "typing", "text": m["text"], "kind": "molecule", "seed": m["seed"], "param": "virt:altparams:1",
                                         "rule": "virt:rules:1"})
                opens_before = fs.opens
                fired_before = len(fs.fired)
                world.event({"k": "op", "op": kind, "mol": c["mol"]})
                stats["typing_calls"] += 1
                feats = ["call=" + kind]
                if kind == "partial":
                    # partial molecules: a lone token, a token whose open descriptor has weight 0, and every intermediate of the
                    # run's own molecule generated element by element (a prefix written without descriptor carries an implicit
                    # descriptor of weight 0).  Partial = the list of open descriptors is not empty.
                    parts = []
                    variant = c["perm_seed"] % 4
                    try:
                        if variant == 0:
                            parts.append(("[<]CC[>]", g.SmilesToken("[<]CC[>]", 0, 0).generate()))
                        elif variant == 1:
                            t = ["CC[>|0|]", "[<|0|]CC[>|0.0|]", "OC[$|0|]"][c["perm_seed"] // 4 % 3]
                            parts.append((t, g.SmilesToken(t, 0, 0).generate()))
                        else:
                            m = spec["mols"][c["mol"]]
                            my = None
                            for ei, el in enumerate(g.Molecule(m["text"]).elements[:-1]):
                                my = el.generate(my, np.random.default_rng(m["seed"]))
                                if len(my.bond_descriptors) > 0:
                                    parts.append((f"{m['text']} after element {ei}", copy.deepcopy(my)))
                    except SimAbort:
                        raise
                    except Exception as exc:
                        return {"harness_error": f"partial molecule could not be built: {exc!r}", "violations": []}
                    for what, part in parts:
                        stats["refusals_checked"] += 1
                        try:
                            if c["perm_seed"] % 2:
                                part.get_forcefield_types(None, None)
                            else:
                                part.forcefield_types
                            viol("partial_molecule_typed", f"a partially generated molecule ({what}: {len(part.bond_descriptors)} open descriptors) "
                                 f"was typed instead of refused")
                        except RuntimeError:
                            pass
                        except SimAbort:
                            raise
                        except Exception as exc:
                            viol("partial_molecule_typed", f"typing a partially generated molecule ({what}) raised {exc!r} instead of refusing")
                    continue
                if kind == "renumbered":
                    out = _renumbered(g, mg, c["perm_seed"], viol)
                    stats["renumbered_calls"] += 1
                else:
                    rule = param = None
                    via = "method"
                    if kind == "default":
                        via = "property"
                    elif kind == "copies":
                        rule, param = "virt:rules:1", "virt:params:1"
                    elif kind == "other_copies":
                        rule, param = "virt:rules:2", "virt:params:2"
                    elif kind == "alt_params":
                        rule, param = "virt:rules:1", "virt:altparams:1"
                    elif kind == "rules_copy_only":
                        rule = "virt:rules:1"
                    elif kind == "params_copy_only":
                        param = "virt:params:1"
                    if rule or param:
                        stats["explicit_file_calls"] += 1
                        feats.append("explicit_files")
                    out = typing_outcome(g, mg, rule, param, via)
                faulted = len(fs.fired) > fired_before
                if faulted:
                    for f in fs.fired[fired_before:]:
                        stats["fault:" + f[1].split("@")[0]] = stats.get("fault:" + f[1].split("@")[0], 0) + 1
                    if out[0] == "oserror":
                        continue  # the faulted call itself may fail with an OSError, nothing else
                    feats.append("after_fault_in_same_call")
                if out is None:
                    continue
                # totality / element masses ------------------------------------------------------
                if out[0] == "ok":
                    rows, elems, n_ff = out[1], out[2], out[3]
                    if n_ff != len(rows) or any(r is None for r in rows):
                        viol("not_total", f"call {ci} ({kind}): {n_ff} parameter sets for {len(rows)} atoms", feats)
                    else:
                        for i, (r, z) in enumerate(zip(rows, elems)):
                            if abs(r[1] - pt.GetAtomicWeight(z)) > 0.05:
                                viol("element_mass", f"call {ci} ({kind}): atom {i} ({pt.GetElementSymbol(z)}) got type {r[0]} with mass {r[1]}", feats)
                                break
                elif out[0] == "ff_error":
                    if out[1] is None or out[2] is None:
                        viol("assignment_error_without_partial", f"call {ci} ({kind}): FfAssignmentError without partial assignment / molecule", feats)
                else:
                    viol("typing_raised", f"call {ci} ({kind}) on {spec['mols'][c['mol']]['text']!r} raised {out[1:]}", feats + ["exc=" + str(out[1])])
                    continue
                # history / configuration independence ---------------------------------------------
                stats["results_compared"] += 1
                if tuple(out[:3]) != tuple(base[:3]) if out[0] == "ok" else (out[0] != base[0]):
                    viol("differs_from_first_call_baseline",
                         f"call {ci} ({kind}) on {spec['mols'][c['mol']]['text']!r}: result differs from the first call in a pristine process "
                         f"({_diff(out, base)})", feats)
                if len(viols) > 5:
                    break
    except WallTimeout:
        return {"harness_error": "wall-clock watchdog fired", "violations": []}
    finally:
        signal.alarm(0)
        signal.signal(signal.SIGALRM, old)
    stats["opens"] = fs.opens
    if spec.get("restart") and not viols:
        from .. import freshproc

        m0 = spec["mols"][0]
        there = freshproc.restart({"job": "typing", "text": m0["text"], "seeds": [m0["seed"]]}, spec["restart"]["hashseeds"])
        stats["fault:process_restart"] = len(there)
        want = json.loads(json.dumps(bases[0]))
        for hs, r in sorted(there.items()):
            if "child_failed" in r:
                return {"harness_error": f"restarted interpreter (PYTHONHASHSEED={hs}) failed: {r['child_failed']}", "violations": []}
            if "ok" in r and r["ok"][0] != want:
                viol("differs_from_first_call_baseline", f"typing {m0['text']!r} (seed {m0['seed']}) in a fresh interpreter under PYTHONHASHSEED={hs} "
                     f"differs from the first call in a pristine process ({_diff(tuple(r['ok'][0]), tuple(want))})", ["process_restart"])
                break
    sig = hashlib.sha1(json.dumps([spec["mols"], spec["calls"], spec["faults"]], sort_keys=True).encode()).hexdigest()
    fired = sum(v for k, v in stats.items() if k.startswith("fault:"))
    nontrivial = stats["results_compared"] >= 4 and (stats["explicit_file_calls"] >= 1 or fired >= 1)
    sample = {"molecules": [m["text"] for m in spec["mols"]], "calls": [(c["call"], c["mol"]) for c in spec["calls"]], "faults": spec["faults"]}
    return {"violations": viols, "stats": stats, "sig": sig, "nontrivial": nontrivial, "sample": sample, "digest": world.digest(), "trace": None}


def _diff(out, base):
    if out[0] != base[0]:
        return f"{out[0]} vs {base[0]}"
    if out[0] == "ok":
        if out[2] != base[2]:
            return "different atoms"
        for i, (a, b) in enumerate(zip(out[1], base[1])):
            if a != b:
                return f"atom {i}: {a} vs {b}"
    return "?"


def _renumbered(g, mg, perm_seed, viol):
    """type a renumbered copy of the molecule through the assignment object and map the result back"""
    try:
        mol = Chem.AddHs(mg.mol)
        n = mol.GetNumAtoms()
        perm = list(range(n))
        prng = random.Random(perm_seed)
        if perm_seed % 2:
            prng.shuffle(perm)  # new atom i is old atom perm[i]
        else:
            # a renumbering that keeps the element at every index (atoms shuffled within their element): the sequence of
            # atomic numbers is unchanged, everything else about the numbering is not
            by_z = {}
            for a in mol.GetAtoms():
                by_z.setdefault(a.GetAtomicNum(), []).append(a.GetIdx())
            for z, idxs in by_z.items():
                sh = list(idxs)
                prng.shuffle(sh)
                for pos, old_i in zip(idxs, sh):
                    perm[pos] = old_i
        rmol = Chem.RenumberAtoms(mol, perm)
        assigner = g.forcefield_helper.get_assignment_class(None, None)
        try:
            ff = assigner.get_type_assignments(rmol)
        except g.forcefield_helper.FfAssignmentError as exc:
            return ("ff_error", len(exc.incomplete_ff_dict), n)
        rows = [None] * n
        for new_i, old_i in enumerate(perm):
            p = ff.get(new_i)
            rows[old_i] = None if p is None else _ff_tuple(p)
        return ("ok", rows, [a.GetAtomicNum() for a in mol.GetAtoms()], len(ff))
    except SimAbort:
        raise
    except OSError as exc:
        return ("oserror", type(exc).__name__)
    except Exception as exc:
        return ("exc", type(exc).__name__, str(exc)[:120])


def shrink_candidates(spec):
    calls = spec["calls"]
    for i in range(len(calls)):
        c = json.loads(json.dumps(spec))
        del c["calls"][i]
        yield c
    for k in list(spec["faults"]):
        c = json.loads(json.dumps(spec))
        del c["faults"][k]
        yield c
