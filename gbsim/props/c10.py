"""C10 - generation is a pure, reproducible function of string and supplied generator;
parsed objects are never changed.

World of one run: 2-4 input strings, each parsed one to three times; the library's global generator
(seeded by the run); per-call seeded generators.  A seeded client issues a history of operations
(parse, seeded / global generation, printing, graph building, mirrors and copies that the client
mutates, ensemble iteration, typing, ensemble probability, global-generator perturbation) with faults
injected *inside* generate calls (failing generator at decision k, KeyboardInterrupt at decision k,
failing embedding of residue k).  After every operation every live object must print as in the
baseline and every seeded generation must return the baseline molecule.

Baseline = history-free: a pristine server process (forked from the worker before it executed
anything) forks one fresh child per (string, operation, seed); nothing that ran before can leak in.
"""
import hashlib
import json
import os
import pickle
import random
import signal
import struct
import sys
import traceback

import numpy as np

from .. import archetypes, boot, reader
from ..genrun import WallTimeout, _alarm
from ..seams import DrawDiverges, World
from ..simrng import BudgetExceeded, InjectedInterrupt, InjectedRngError, InjectedValueError, Scheduler, SimAbort, SimRng

LEVEL = "fault_enumeration"
TECHNIQUE = ("deterministic simulation: seeded operation histories over shared parsed objects with crash-point enumeration inside "
             "generate calls, checked against a history-free baseline computed in pristine forked processes")
RULE = ("each run = 2-4 input strings x a seeded history of 8-40 operations over 1-3 parsed instances per string, with rng / "
        "interrupt / embedding faults placed at decision indices of a fault-free execution of the same call (thorough: every "
        "index of one call); after every operation all objects are compared with the baseline; distinct = hash of (inputs, "
        "operation list); non-trivial = at least 8 operations, at least 2 seeded generations compared and at least one mutating / "
        "perturbing / faulting operation in between")
ASSUMPTIONS = [
    "baseline processes are forked from a server that was itself forked before the worker executed any run (pristine module state)",
    "'the same molecule' = canonical SMILES and heavy-atom mass (1e-6); coordinates are not compared (embedding is a stub)",
    "seeded generators are numpy default_rng(seed) (real numpy) or SimRng(seed, faithful policy); faults need SimRng",
    "under a fault only the faulted call may raise; nothing else may change",
    "2-3 % of the histories additionally recompute their baseline entries in fresh interpreters under two other PYTHONHASHSEEDs (process restart)",
]
COMPONENTS = {"real": ["parser, generator, graphs, mol_prob, force-field typing, numpy default_rng"],
              "stub": ["3-D embedding (zero conformer; 'embed_fail' fault = no conformer)", "SimRng in runs that inject rng faults"]}

OPS = ["gen_seeded", "gen_seeded", "gen_seeded", "gen_global", "print", "parse_again", "elements_mutate", "mirror_mutate",
       "mirror_generate", "reaction_graph", "atom_graph", "ensemble_prob", "typing", "perturb_global", "gen_fault", "system_iter",
       "gen_seeded_sim", "atom_graph_generate", "ensemble_prob_value", "natural_failure", "natural_failure", "system_pass", "system_pass", "copy_generate"]

# Operations that fail on their own (no injected fault): whatever error path they take must leave nothing behind that a later
# operation can see -- in the objects, in the library's modules, or in process-wide settings of numpy / RDKit.
NATURAL_FAILURES = [
    ("generate", "{[$][$]CC[$][]}|gauss(100,10)|"),  # stochastic object with a non-empty left terminal and no prefix
    ("generate", "{[][$]CC[$], [$|0.2|]CO[>]; [$][H][]}|gauss(400, 20)|"),  # a unit that leaves a descriptor without any partner
    ("generate", "C{[>][<|-1|]CC[>][<]}|gauss(50, 5)|C"),  # negative weight: not generable
    ("generate", "C{[>][<]CC[>][<]}C"),  # no distribution: not generable
    ("generate", "CC{[>][<|0 3|]CC[>|1 0|], [<]CO[>][<]}|gauss(90, 10)|C"),  # transition list of the wrong length
    ("parse", "CC{[>][<]CC[>][<}|gauss(90, 10)|C"),
    ("parse", "CC{[>][<]C(C[>][<]}|gauss(90, 10)|C"),
    ("parse", "CC{[>][?]CC[>][<]}|gauss(90, 10)|C"),
    ("parse", "CC{[>][<]CC[>][<]}|weibull(90, 10)|C"),
    ("parse", "CCO.|130%|CC.|10%|"),
    ("system_generator", "CCO.|50%|CC"),  # mass unknown: not generable
    ("ensemble_prob", "not-a-smiles(("),
    ("typing_partial", "[<]CC[>]"),
]
# inputs whose generation walks through numerically delicate code (division by zero in a power, underflow in exp, zero
# width): they come out the same in a pristine process and after any history
SENSITIVE_INPUTS = [
    "C{[>][<]CC[>][<]}|schulz_zimm(1000, 450)|C", "C{[>][<]CC[>][<]}|log_normal(100, 1.0001)|C", "C{[>][<]CC[>][<]}|gauss(100, 0)|C",
    "C{[>][<]CCO[>][<]}|poisson(0.5)|C", "C{[>][<|0|]CC[>|0|][<]}|gauss(100, 10)|C", "C{[>][<]CC[>][<]}|flory_schulz(0.9)|C",
    "C{[>][<]CC[>][<]}|uniform(5, 6)|C",
]


def plan(tier):
    return 640 if tier == "quick" else 8000


# --------------------------------------------------------------------------------------------
# pristine baseline server
_SERVER = None


def _send(fd, obj):
    data = pickle.dumps(obj)
    os.write(fd, struct.pack("<I", len(data)))
    off = 0
    while off < len(data):
        off += os.write(fd, data[off: off + 65536])


def _recv(fd):
    hdr = b""
    while len(hdr) < 4:
        chunk = os.read(fd, 4 - len(hdr))
        if not chunk:
            raise EOFError
        hdr += chunk
    n = struct.unpack("<I", hdr)[0]
    buf = b""
    while len(buf) < n:
        chunk = os.read(fd, n - len(buf))
        if not chunk:
            raise EOFError
        buf += chunk
    return pickle.loads(buf)


def _ensure_server():
    global _SERVER
    if _SERVER is not None and _SERVER["pid_owner"] == os.getpid():
        return _SERVER
    boot.load()
    from .. import seams

    seams.install()
    req_r, req_w = os.pipe()
    res_r, res_w = os.pipe()
    pid = os.fork()
    if pid == 0:
        # ---- server: never executes library code itself; forks one child per request ---------
        os.close(req_w)
        os.close(res_r)
        signal.signal(signal.SIGALRM, signal.SIG_DFL)
        try:
            while True:
                try:
                    req = _recv(req_r)
                except EOFError:
                    break
                cr, cw = os.pipe()
                cpid = os.fork()
                if cpid == 0:
                    os.close(cr)
                    try:
                        signal.alarm(700)
                        out = _baseline_compute(req)
                    except BaseException as exc:
                        out = ("harness_exc", f"{type(exc).__name__}: {exc}", traceback.format_exc()[-600:])
                    try:
                        _send(cw, out)
                    finally:
                        os._exit(0)
                os.close(cw)
                try:
                    out = _recv(cr)
                except EOFError:
                    out = ("harness_exc", "baseline child died", "")
                os.close(cr)
                os.waitpid(cpid, 0)
                _send(res_w, out)
        finally:
            os._exit(0)
    os.close(req_r)
    os.close(res_w)
    _SERVER = {"pid_owner": os.getpid(), "pid": pid, "req": req_w, "res": res_r, "cache": {}}
    return _SERVER


def baseline(req):
    srv = _ensure_server()
    key = json.dumps(req, sort_keys=True)
    if key not in srv["cache"]:
        _send(srv["req"], req)
        srv["cache"][key] = _recv(srv["res"])
    return srv["cache"][key]


def _outcome(mg):
    return ("ok", mg.smiles, round(float(mg.weight), 6), bool(mg.fully_generated))


def _make_rng(kind, seed):
    if kind == "numpy":
        return np.random.default_rng(seed), None
    sched = Scheduler(seed, choice_policy="faithful", draw_policy="natural", budget=20000)
    return SimRng(sched), sched


def _parse(g, text, kind):
    return g.System(text) if kind == "system" else g.Molecule(text)


def _describe(obj):
    return (str(obj), obj.generate_string(False), bool(obj.generable))


def _graph_digest(G):
    rows = []
    for n, d in G.nodes(data=True):
        rows.append(("n", str(n), sorted((k, repr(v)) for k, v in d.items() if k != "distribution")))
    for a, b, d in G.edges(data=True):
        rows.append(("e", str(a), str(b), sorted((k, repr(round(v, 12)) if isinstance(v, float) else repr(v)) for k, v in d.items())))
    return hashlib.sha1(repr(rows).encode()).hexdigest()


def _generate_outcome(obj, rng):
    try:
        return _outcome(obj.generate(rng=rng))
    except (DrawDiverges, BudgetExceeded) as exc:
        return ("exc", type(exc).__name__)
    except SimAbort:
        raise
    except Exception as exc:
        return ("exc", type(exc).__name__)


def _atom_graph_generate(g, obj, seed):
    from rdkit import Chem

    try:
        sg = obj.gen_stochastic_atom_graph(True)
        ag = g.AtomGraph(sg, rng=np.random.default_rng(seed))
        ag.generate()
        return ("ok", Chem.MolToSmiles(ag.to_mol()))
    except SimAbort:
        raise
    except Exception as exc:
        return ("exc", type(exc).__name__)


def _ensemble_prob_value(g, obj, seed):
    try:
        mg = obj.generate(rng=np.random.default_rng(seed))
        # get_ensemble_prob's search is exponential for branched / long molecules: a deterministic size criterion decides
        # (a time limit would make the baseline and the history disagree by accident)
        if not mg.fully_generated or mg.mol.GetNumAtoms() > 12 or any(len(r.bond_descriptors) > 2 for r in obj.residues):
            return ("skip",)
        return ("ok", mg.smiles, round(float(g.mol_prob.get_ensemble_prob(mg.smiles, obj)[0]), 12))
    except SimAbort:
        raise
    except Exception as exc:
        return ("exc", type(exc).__name__)


def _system_pass(g, obj, seed, limit=80):
    """one complete pass over System.generator with a seeded generator: [(SMILES, mass)] of the ensemble"""
    fget = g.System.generator.fget
    old = fget.__defaults__
    fget.__defaults__ = (np.random.default_rng(seed),)
    try:
        if not obj.generable:
            return ("skip",)
        gen = obj.generator
    finally:
        fget.__defaults__ = old
    rows = []
    try:
        for mg in gen:
            rows.append((mg.smiles, round(float(mg.weight), 6)))
            if len(rows) >= limit:
                gen.close()
                return ("ok", "truncated", tuple(rows))
    except SimAbort:
        raise
    except Exception as exc:
        return ("exc", type(exc).__name__, len(rows))
    return ("ok", "complete", tuple(rows))


def _baseline_compute(req):
    """Runs in a fresh child of the pristine server."""
    g = boot.load()
    kind = req["what"]
    w = World(Scheduler(1), embed="stub")
    w.attach_limit = 10 ** 9
    w.draw_limit = 10 ** 9
    with w:
        obj = _parse(g, req["text"], req["kind"])
        if kind == "describe":
            return ("ok",) + _describe(obj)
        if kind == "generate":
            rng, sched = _make_rng(req["rng"], req["seed"])
            out = _generate_outcome(obj, rng)
            return out + ((sched.calls,) if sched is not None else (None,))
        if kind == "mirror_generate":
            m = obj.gen_mirror()
            if m is None:
                return ("none",)
            rng, sched = _make_rng(req["rng"], req["seed"])
            return _generate_outcome(m, rng)
        if kind == "mirror_describe":
            m = obj.gen_mirror()
            return ("none",) if m is None else ("ok", m.generate_string(True), m.generate_string(False))
        if kind == "typing":
            from . import c20

            w.__exit__(None, None, None)
            return c20.baseline_typing(req)
        if kind == "reaction_graph":
            try:
                return ("ok", _graph_digest(obj.gen_reaction_graph()))
            except Exception as exc:
                return ("exc", type(exc).__name__)
        if kind == "atom_graph":
            try:
                sg = obj.gen_stochastic_atom_graph(req["expect_sz"])
                return ("ok", _graph_digest(sg.graph))
            except Exception as exc:
                return ("exc", type(exc).__name__)
        if kind == "system_pass":
            return _system_pass(g, obj, req["seed"])
        if kind == "atom_graph_generate":
            return _atom_graph_generate(g, obj, req["seed"])
        if kind == "ensemble_prob_value":
            return _ensemble_prob_value(g, obj, req["seed"])
    return ("harness_exc", f"unknown baseline request {kind}", "")


# --------------------------------------------------------------------------------------------
def spec_from_seed(run_seed, tier):
    rnd = random.Random(run_seed)
    n_in = rnd.choice([2, 2, 3, 4])
    inputs = []
    for i in range(n_in):
        if rnd.random() < 0.22:
            for _ in range(10):
                t, tags, sysw = archetypes.gen_system(rnd, {"safe_dist": True})
                if sysw is None and archetypes.token_budget_ok(t, 20):
                    break
            inputs.append({"text": t, "kind": "system"})
        else:
            cfg = {"branchy": True, "safe_dist": rnd.random() < 0.85, "allow_illposed": False}
            sz_only = rnd.random() < 0.15
            t, tags = archetypes.gen_molecule(rnd, cfg)
            if sz_only:
                import re

                t = re.sub(r"\|[a-z_]+\([^)]*\)\|", lambda m: "|schulz_zimm(%d, %d)|" % (rnd.choice([130, 210]), rnd.choice([100, 160])) if False else "|schulz_zimm(208, 160)|", t)
            inputs.append({"text": t, "kind": "molecule"})
    if rnd.random() < 0.3:
        inputs[rnd.randrange(n_in)] = {"text": rnd.choice(SENSITIVE_INPUTS), "kind": "molecule"}
    # sibling inputs: the same tokens with other weights / another law / other parameters in the same history, so that state
    # keyed by part of a string (token text, printed form without extensions, family name) collides between two objects
    if n_in >= 2 and inputs[0]["kind"] == "molecule" and rnd.random() < 0.4:
        from .. import siblings

        sib = siblings.respell(rnd, inputs[0]["text"]) if rnd.random() < 0.4 else siblings.retune(rnd, inputs[0]["text"])
        if sib is not None and sib != inputs[0]["text"]:
            inputs[rnd.randrange(1, n_in)] = {"text": sib, "kind": "molecule", "sibling_of": 0}
    n_ops = rnd.choice([8, 10, 14, 20, 28])
    ops = []
    for j in range(n_ops):
        op = rnd.choice(OPS)
        o = {"op": op, "in": rnd.randrange(n_in), "inst": rnd.randrange(3), "seed": rnd.choice([1, 2, 3, 7, 42, rnd.randrange(1000)])}
        if op == "gen_fault":
            o["fault"] = rnd.choice(["rng_raise", "rng_interrupt", "rng_value", "embed_fail"])
            o["frac"] = rnd.random()
        if op == "perturb_global":
            o["n"] = rnd.choice([1, 3, 17, 100])
        if op == "natural_failure":
            o["which"] = rnd.randrange(len(NATURAL_FAILURES))
        ops.append(o)
    enum = None
    if tier == "thorough" and rnd.random() < 0.4:
        enum = {"in": rnd.randrange(n_in), "seed": rnd.randrange(100), "fault": rnd.choice(["rng_raise", "rng_interrupt", "rng_value", "embed_fail"]),
                "max": 150}
    elif rnd.random() < 0.3:
        enum = {"in": rnd.randrange(n_in), "seed": rnd.randrange(100), "fault": rnd.choice(["rng_raise", "rng_interrupt", "rng_value", "embed_fail"]),
                "max": 6}
    return {"kind": "history", "prop": "C10", "inputs": inputs, "ops": ops, "global_seed": rnd.randrange(1 << 30), "enumerate": enum,
            # process restart: the inputs are described and generated again in fresh interpreters under other string hash seeds
            "fresh_interpreter": rnd.random() < (0.03 if tier == "thorough" else 0.02),
            "fresh_hashseeds": [str(h) for h in rnd.sample(range(1, 100000), 2)]}


class _Client:
    def __init__(self, spec, g, world):
        self.spec = spec
        self.g = g
        self.world = world
        self.viols = []
        self.stats = {"runs": 1, "operations": 0, "seeded_generations_compared": 0, "describe_checks": 0}
        self.objs = []  # per input: list of instances
        self.base_desc = []
        self.mutating = 0

    def viol(self, inv, msg, feats=()):
        self.viols.append({"property": "C10", "invariant": inv, "msg": msg, "features": list(feats), "op_index": self.stats["operations"]})

    def count(self, k, n=1):
        self.stats[k] = self.stats.get(k, 0) + n

    def setup(self):
        for inp in self.spec["inputs"]:
            b = baseline({"what": "describe", "text": inp["text"], "kind": inp["kind"]})
            if b[0] != "ok":
                return f"baseline describe failed for {inp['text']!r}: {b}"
            self.base_desc.append(b[1:])
            self.objs.append([_parse(self.g, inp["text"], inp["kind"])])
        return None

    def inst(self, o):
        lst = self.objs[o["in"]]
        return lst[o["inst"] % len(lst)]

    def check_all(self, after):
        for i, lst in enumerate(self.objs):
            for k, obj in enumerate(lst):
                try:
                    d = _describe(obj)
                except Exception as exc:
                    self.viol("object_changed", f"after {after}: printing instance {k} of input {i} raised {exc!r}")
                    continue
                self.stats["describe_checks"] += 1
                if d != tuple(self.base_desc[i]):
                    self.viol("object_changed", f"after {after}: instance {k} of {self.spec['inputs'][i]['text']!r} now prints as {d[0]!r} / "
                              f"{d[1]!r} / generable={d[2]} (baseline {self.base_desc[i][0]!r})")

    def compare_generation(self, o, obj, rng_kind, what="generate", target=None):
        inp = self.spec["inputs"][o["in"]]
        b = baseline({"what": what, "text": inp["text"], "kind": inp["kind"], "rng": rng_kind, "seed": o["seed"]})
        if b[0] == "harness_exc":
            return f"baseline failed: {b}"
        if b[0] == "none":
            return None
        rng, sched = _make_rng(rng_kind, o["seed"])
        self.world.global_rng_mark()
        got = _generate_outcome(target if target is not None else obj, rng)
        if self.world.global_rng_used():
            self.viol("global_generator_consumed", f"{what}(rng=seeded) on {inp['text']!r} drew from the library's global generator")
        if self.world.ambient_rng_used():
            self.viol("global_generator_consumed", f"{what}(rng=seeded) on {inp['text']!r} drew from a process-wide generator "
                      f"(numpy's legacy global state or Python's random module)")
        self.stats["seeded_generations_compared"] += 1
        if tuple(got[:4]) != tuple(b[:4] if b[0] == "ok" else b[:2]):
            self.viol("seeded_generation_differs",
                      f"op {self.stats['operations']} {what}(rng={rng_kind} seed {o['seed']}) on {inp['text']!r}: got {got[:3]}, history-free baseline {b[:3]}")
        return None

    def run_op(self, o):
        g = self.g
        op = o["op"]
        inp = self.spec["inputs"][o["in"]]
        obj = self.inst(o)
        self.count("op:" + op)
        if op == "gen_seeded":
            return self.compare_generation(o, obj, "numpy")
        if op == "gen_seeded_sim":
            return self.compare_generation(o, obj, "sim")
        if op == "gen_global":
            try:
                obj.generate()
            except SimAbort:
                raise
            except Exception:
                self.count("gen_global_raised")
            self.mutating += 1
            return None
        if op == "print":
            _describe(obj)
            return None
        if op == "parse_again":
            if len(self.objs[o["in"]]) < 3:
                self.objs[o["in"]].append(_parse(g, inp["text"], inp["kind"]))
            return None
        if op == "elements_mutate":
            if inp["kind"] != "molecule":
                return None
            els = obj.elements
            self.mutating += 1
            for e in els:
                for bd in getattr(e, "bond_descriptors", []):
                    bd.weight = 17.5
                    bd.transitions = None
                if hasattr(e, "right_terminal"):
                    e.left_terminal, e.right_terminal = e.right_terminal, e.left_terminal
                    e.repeat_tokens.reverse()
            return None
        if op == "mirror_mutate":
            if inp["kind"] != "molecule":
                return None
            m = obj.gen_mirror()
            self.mutating += 1
            if m is not None:
                for e in m._elements if hasattr(m, "_elements") else []:
                    for bd in getattr(e, "bond_descriptors", []):
                        bd.weight = 0.25
            return None
        if op == "mirror_generate":
            if inp["kind"] != "molecule":
                return None
            m = obj.gen_mirror()
            if m is None:
                return None
            self.mutating += 1
            return self.compare_generation(o, obj, "numpy", what="mirror_generate", target=m)
        if op == "reaction_graph":
            if inp["kind"] != "molecule":
                return None
            b = baseline({"what": "reaction_graph", "text": inp["text"], "kind": inp["kind"]})
            try:
                got = ("ok", _graph_digest(obj.gen_reaction_graph()))
            except Exception as exc:
                got = ("exc", type(exc).__name__)
            if tuple(got) != tuple(b):
                self.viol("graph_differs", f"reaction graph of {inp['text']!r}: {got} vs baseline {b}")
            return None
        if op == "atom_graph":
            if inp["kind"] != "molecule":
                return None
            b = baseline({"what": "atom_graph", "text": inp["text"], "kind": inp["kind"], "expect_sz": False})
            try:
                got = ("ok", _graph_digest(obj.gen_stochastic_atom_graph(False).graph))
            except Exception as exc:
                got = ("exc", type(exc).__name__)
            if tuple(got) != tuple(b):
                self.viol("graph_differs", f"stochastic atom graph of {inp['text']!r}: {got} vs baseline {b}")
            return None
        if op in ("atom_graph_generate", "ensemble_prob_value"):
            if inp["kind"] != "molecule" or (op == "ensemble_prob_value" and len(inp["text"]) > 90):
                return None
            if op == "atom_graph_generate" and ("schulz_zimm" not in inp["text"] or any(f in inp["text"] for f in ("gauss", "uniform", "poisson", "log_normal", "flory"))):
                return None
            b = baseline({"what": op, "text": inp["text"], "kind": inp["kind"], "seed": o["seed"]})
            if b[0] == "harness_exc":
                return f"baseline failed: {b}"
            got = _atom_graph_generate(g, obj, o["seed"]) if op == "atom_graph_generate" else _ensemble_prob_value(g, obj, o["seed"])
            self.mutating += 1
            self.count("derived_outputs_compared")
            if tuple(got) != tuple(b):
                self.viol("derived_output_differs", f"op {self.stats['operations']} {op}(seed {o['seed']}) on {inp['text']!r}: got {got}, history-free baseline {b}")
            return None
        if op == "ensemble_prob":
            if inp["kind"] != "molecule" or len(inp["text"]) > 90:
                return None
            rng = np.random.default_rng(o["seed"])
            try:
                mg = obj.generate(rng=rng)
                # the search of get_ensemble_prob is exponential for branched / longer molecules: the same deterministic size
                # criterion as for ensemble_prob_value decides whether it is called (a watchdog would be a harness error)
                if mg.fully_generated and mg.mol.GetNumAtoms() <= 12 and not any(len(r.bond_descriptors) > 2 for r in obj.residues):
                    g.mol_prob.get_ensemble_prob(mg.smiles, obj)
            except SimAbort:
                raise
            except Exception:
                self.count("ensemble_prob_raised")
            self.mutating += 1
            return None
        if op == "typing":
            rng = np.random.default_rng(o["seed"])
            try:
                mg = obj.generate(rng=rng)
                if mg.fully_generated and mg.weight < 400:
                    mg.forcefield_types
            except SimAbort:
                raise
            except Exception:
                self.count("typing_raised")
            self.mutating += 1
            return None
        if op == "perturb_global":
            g.core._GLOBAL_RNG.random(o["n"])
            # ... and the process-wide generators other code in the same process draws from
            import random as _random

            np.random.random(o["n"])
            for _ in range(o["n"] % 7 + 1):
                _random.random()
            self.mutating += 1
            return None
        if op == "system_iter":
            if inp["kind"] != "system" or not obj.generable:
                return None
            gen = obj.generator
            self.mutating += 1
            try:
                for _ in range(o["seed"] % 4 + 1):
                    next(gen)
            except StopIteration:
                pass
            except SimAbort:
                raise
            except Exception:
                self.count("system_iter_raised")
            if o["seed"] % 2:
                gen.close()
            return None
        if op == "copy_generate":
            # a deep copy taken at this point of the history denotes the same object: it generates the baseline molecule
            import copy as _copy

            try:
                cp = _copy.deepcopy(obj)
            except Exception as exc:
                self.viol("object_changed", f"copy.deepcopy of an instance of {inp['text']!r} raised {exc!r}")
                return None
            self.mutating += 1
            self.count("copies_generated")
            return self.compare_generation(o, obj, "numpy", target=cp)
        if op == "system_pass":
            if inp["kind"] != "system":
                return None
            b = baseline({"what": "system_pass", "text": inp["text"], "kind": inp["kind"], "seed": o["seed"]})
            if b[0] == "harness_exc":
                return f"baseline failed: {b}"
            got = _system_pass(g, obj, o["seed"])
            self.mutating += 1
            self.count("system_passes_compared")
            if tuple(got) != tuple(b):
                def short(r):
                    return (r[0], r[1], len(r[2]), round(sum(w for _, w in r[2]), 3)) if r[0] == "ok" else r
                self.viol("derived_output_differs", f"op {self.stats['operations']} ensemble pass (seed {o['seed']}) over {inp['text']!r}: got {short(got)} "
                          f"(status, completeness, members, mass), history-free baseline {short(b)}")
            return None
        if op == "gen_fault":
            return self.faulted_generate(o, obj, o["fault"], None, o["frac"])
        if op == "natural_failure":
            kind, text = NATURAL_FAILURES[o["which"] % len(NATURAL_FAILURES)]
            self.mutating += 1
            try:
                if kind == "parse":
                    (g.System if ".|" in text else g.Molecule)(text)
                elif kind == "generate":
                    g.Molecule(text).generate(rng=np.random.default_rng(o["seed"]))
                elif kind == "system_generator":
                    next(g.System(text).generator)
                elif kind == "ensemble_prob":
                    if inp["kind"] == "molecule":
                        g.mol_prob.get_ensemble_prob(text, obj)
                elif kind == "typing_partial":
                    g.SmilesToken(text, 0, 0).generate().get_forcefield_types(None, None)
                self.count("natural_failure_did_not_fail")
            except SimAbort:
                raise
            except Exception:
                self.count("natural_failures")
            return None
        return None

    def faulted_generate(self, o, obj, fault, k, frac=None):
        inp = self.spec["inputs"][o["in"]]
        b = baseline({"what": "generate", "text": inp["text"], "kind": inp["kind"], "rng": "sim", "seed": o["seed"]})
        if b[0] != "ok":
            return None
        calls = b[4] or 0
        residues = max(1, len(reader.read_system(inp["text"]).residues()) if inp["kind"] == "system" else 1)
        rng, sched = _make_rng("sim", o["seed"])
        self.mutating += 1
        if fault in ("rng_raise", "rng_interrupt", "rng_value"):
            if calls == 0:
                return None
            kk = k if k is not None else min(calls - 1, int(frac * calls))
            if kk >= calls:
                return "done"
            sched.faults[kk] = {"rng_raise": "raise", "rng_interrupt": "interrupt", "rng_value": "value"}[fault]
            try:
                obj.generate(rng=rng)
                if sched.fired:
                    self.viol("fault_swallowed", f"{fault}@{kk} inside generate was swallowed")
                else:
                    self.count("fault_not_reached")
            except (InjectedRngError, InjectedInterrupt, InjectedValueError):
                self.count("fault:" + fault)
            except SimAbort:
                raise
            except Exception as exc:
                # the library may wrap / re-raise, that is fine; but it must have been our fault that ended the call
                if sched.fired:
                    self.count("fault:" + fault)
                else:
                    self.count("faulted_call_other_exception")
            return None
        if fault == "embed_fail":
            kk = k if k is not None else int(frac * 6)
            self.world.embed_calls = 0
            self.world.embed_fault_at = kk
            try:
                obj.generate(rng=rng)
            except SimAbort:
                raise
            except Exception:
                pass
            fired = any(e["k"] == "fault" and e["kind"] == "embed_fail" for e in self.world.log[-400:])
            self.world.embed_fault_at = None
            if fired:
                self.count("fault:embed_fail")
                return None
            return "done"
        return None


def execute(spec):
    g = boot.load()
    _ensure_server()
    sched0 = Scheduler(spec["global_seed"])
    world = World(sched0, embed="stub")
    world.attach_limit = 10 ** 9
    world.draw_limit = 10 ** 9
    old = signal.signal(signal.SIGALRM, _alarm)
    signal.alarm(700)
    try:
        with world:
            # the library's global generator is an ordinary numpy generator shared through default arguments: seed its state
            grng = g.core._GLOBAL_RNG
            saved_state = grng.bit_generator.state
            grng.bit_generator.state = np.random.default_rng(spec["global_seed"]).bit_generator.state
            world.global_rng_mark()
            try:
                cl = _Client(spec, g, world)
                err = cl.setup()
                if err:
                    return {"harness_error": err, "violations": []}
                cl.check_all("parse")
                for o in spec["ops"]:
                    cl.stats["operations"] += 1
                    world.event({"k": "op", "op": o["op"], "in": o["in"], "inst": o["inst"], "seed": o["seed"]})
                    import time as _t

                    t_op = _t.time()
                    try:
                        err = cl.run_op(o)
                    except (DrawDiverges, BudgetExceeded):
                        # a target draw that does not return (known findings F-sz-norm / F-draw-raise, judged by C11 / C06) inside
                        # an operation whose result is not compared: the operation ends there, the history goes on
                        cl.count("operation_ended_by_draw_budget")
                        err = None
                    cl.stats["wall_ms:" + o["op"]] = cl.stats.get("wall_ms:" + o["op"], 0) + int(1000 * (_t.time() - t_op))
                    if err and err != "done":
                        return {"harness_error": err, "violations": []}
                    cl.check_all(f"op {cl.stats['operations']} ({o['op']})")
                    if len(cl.viols) > 6:
                        break
                en = spec.get("enumerate")
                if en and not cl.viols:
                    o = {"in": en["in"], "inst": 0, "seed": en["seed"], "op": "enumerate"}
                    obj = cl.inst(o)
                    for k in range(en["max"]):
                        r = cl.faulted_generate(o, obj, en["fault"], k)
                        cl.count("enumerated_crash_points")
                        cl.check_all(f"{en['fault']}@{k}")
                        # a seeded generation after the crash must still be the baseline molecule
                        err = cl.compare_generation({"in": en["in"], "seed": en["seed"] + 1}, obj, "numpy")
                        if err:
                            return {"harness_error": err, "violations": []}
                        if r == "done" or cl.viols:
                            break
            finally:
                grng.bit_generator.state = saved_state
    except WallTimeout:
        return {"harness_error": "wall-clock watchdog fired", "violations": []}
    finally:
        signal.alarm(0)
        signal.signal(signal.SIGALRM, old)
    if spec.get("fresh_interpreter") and not cl.viols:
        err = _fresh_interpreter_check(spec, cl)
        if err:
            cl.viol("baseline_depends_on_interpreter", err)
    for v in cl.viols:
        v["input"] = [i["text"] for i in spec["inputs"]]
    sig = hashlib.sha1(json.dumps([spec["inputs"], spec["ops"], spec.get("enumerate")], sort_keys=True).encode()).hexdigest()
    nontrivial = cl.stats["operations"] >= 8 and cl.stats["seeded_generations_compared"] >= 2 and cl.mutating >= 1
    sample = {"inputs": [i["text"] for i in spec["inputs"]], "ops": [(o["op"], o["in"], o["inst"], o["seed"]) for o in spec["ops"][:14]],
              "enumerate": spec.get("enumerate")}
    return {"violations": cl.viols, "stats": cl.stats, "sig": sig, "nontrivial": nontrivial, "sample": sample, "digest": world.digest(),
            "trace": None}


def _fresh_interpreter_check(spec, cl):
    import subprocess

    reqs = []
    for i, inp in enumerate(spec["inputs"]):
        reqs.append({"what": "describe", "text": inp["text"], "kind": inp["kind"]})
        reqs.append({"what": "generate", "text": inp["text"], "kind": inp["kind"], "rng": "numpy", "seed": 7})
        reqs.append({"what": "generate", "text": inp["text"], "kind": inp["kind"], "rng": "numpy", "seed": 1 + spec.get("global_seed", 0) % 97})
    code = ("import sys, json; sys.path.insert(0, %r); from gbsim.props import c10; from gbsim import boot; boot.load();"
            "reqs=json.loads(sys.stdin.read()); print(json.dumps([list(c10._baseline_compute(r)) for r in reqs]))" % (os.path.dirname(os.path.dirname(os.path.dirname(os.path.abspath(__file__)))),))
    for hs in spec.get("fresh_hashseeds", ("1", "98765")):
        env = dict(os.environ)
        env["PYTHONHASHSEED"] = hs
        p = subprocess.run([sys.executable, "-c", code], input=json.dumps(reqs), capture_output=True, text=True, env=env, timeout=600)
        try:
            rows = json.loads([l for l in p.stdout.splitlines() if l.startswith("[")][-1])
        except Exception:
            return None  # harness trouble is not a verdict
        for r, row in zip(reqs, rows):
            b = baseline(r)
            if [x for x in row[:4]] != [x for x in list(b)[:4]]:
                return f"{r} gives {row[:4]} under PYTHONHASHSEED={hs} and {list(b)[:4]} in the baseline"
    cl.count("fresh_interpreter_checks")
    cl.stats["fault:process_restart"] = cl.stats.get("fault:process_restart", 0) + 2
    return None


def shrink_candidates(spec):
    ops = spec["ops"]
    n = len(ops)
    if n > 1:
        for a, b in ((0, n // 2), (n // 2, n)):
            c = json.loads(json.dumps(spec))
            c["ops"] = ops[:a] + ops[b:]
            yield c
        if n <= 12:
            for i in range(n):
                c = json.loads(json.dumps(spec))
                c["ops"] = ops[:i] + ops[i + 1:]
                yield c
    if spec.get("enumerate"):
        c = json.loads(json.dumps(spec))
        c["enumerate"] = None
        yield c
