"""C11 - each molecular-weight distribution is one coherent probability law.

Simulation part (the deciding step): a scripted quantile stream through the real draw code --
for each (family, parameters) case the scheduler hands the family's sampling primitive a
sequence of quantiles u (even grid + tails + seeded uniforms); every draw must return within
the evaluation budget, be finite, lie in the support, and be the u-quantile of the law the
library itself reports through prob_mw; the quantile-averaged mean must be the documented mean.
Coherence clauses without a schedule in them (non-negativity, normalisation, interval
probability vs point probabilities, text form, unknown name) are evaluated on the same cases and
reported under their own invariant ids; they are plain evaluations, said so in the evidence.
"""
import hashlib
import json
import math
import random

import numpy as np

from .. import boot, refdist
from ..seams import DrawDiverges, World
from ..simrng import Scheduler, SimAbort, SimRng

LEVEL = "exploration"
TECHNIQUE = "deterministic simulation: scripted quantile stream through the real draw code, compared with the law prob_mw reports"
RULE = ("each run = one (family, parameter set) x a stream of 40-160 scheduled quantiles (even grid, tails 1e-9..1-1e-9, seeded "
        "uniforms); distinct = distinct (family, parameters); non-trivial = at least 20 draws returned and were compared with the "
        "reported law")
ASSUMPTIONS = [
    "trusted: numpy, scipy.special / scipy.stats.poisson.ppf for turning a quantile into the primitive the family asks for",
    "the law 'the library reports' is read through prob_mw(x) and prob_mw(interval) only",
    "documented means: gauss mu, uniform (low+high)/2, schulz_zimm Mn, log_normal Mn, poisson N, flory_schulz 2/a-1",
    "non-negativity, normalisation, interval-vs-point, text form and unknown-name clauses have no schedule in them: they are "
    "evaluated as self-consistency of the oracle and are not simulation results",
    "liveness of a draw = evaluation budget on the family's own mass/density function (no clock)",
]
COMPONENTS = {"real": ["distribution.py families, scipy rv_discrete/rv_continuous machinery, mol_prob.RememberAdd"],
              "stub": ["the numpy bit generator (replaced by the scheduler)"]}

FAMILIES = ["gauss", "uniform", "schulz_zimm", "log_normal", "poisson", "flory_schulz"]


def plan(tier):
    return 360 if tier == "quick" else 6000


def _params(rnd, fam):
    feats = []
    if fam == "gauss":
        mu = rnd.choice([10.0, 55.5, 100.0, 1000.0, 15000.0, round(rnd.uniform(5, 5000), 2), round(rnd.uniform(1e6, 9e6), 3)])
        sig = rnd.choice([0.0, 0.01 * mu, 0.1 * mu, 0.5 * mu, 2.0 * mu, round(rnd.uniform(0.1, 50), 3)])
        if sig == 0:
            feats.append("region:zero_width")
        return (mu, sig), feats
    if fam == "uniform":
        lo = rnd.choice([0, 1, 12, 100, 500, rnd.randrange(1, 2000), rnd.randrange(1000001, 9999999)])
        hi = lo + rnd.choice([1, 2, 10, 60, 1000, rnd.randrange(1, 3000)])
        if lo > 1000000:
            feats.append("region:many_digits")  # bounds that need more than six significant digits
        if rnd.random() < 0.25:
            lo, hi = lo + round(rnd.uniform(0.1, 0.9), 2), hi + round(rnd.uniform(0.1, 0.9), 2)
            feats.append("region:nonint_params")
        return (lo, hi), feats
    if fam == "schulz_zimm":
        Mn = rnd.choice([36.0, 100.0, 150.0, 600.0, 1400.0, 4000.0, float(rnd.randrange(30, 3000))])
        D = rnd.choice([1.02, 1.07, 1.2, 1.5, 1.9, 2.0, 2.4, round(rnd.uniform(1.01, 2.6), 3), 1.003, 1.007])
        if D < 1.01:
            feats.append("region:nearly_monodisperse")
        Mw = float(round(Mn * D))
        if Mw <= Mn:
            Mw = Mn + 1.0
        z = Mn / (Mw - Mn)
        if z < 1:
            feats.append("region:z<1")
        elif z == 1:
            feats.append("region:z=1")
        return (Mw, Mn), feats
    if fam == "log_normal":
        Mn = rnd.choice([50.0, 100.0, 1000.0, 12000.0, round(rnd.uniform(20, 5000), 1)])
        D = rnd.choice([1.01, 1.1, 1.5, 2.0, 3.0, round(rnd.uniform(1.005, 3), 3)])
        return (Mn, D), feats
    if fam == "poisson":
        return (rnd.choice([0.5, 5.0, 65.0, 900.0, 5000.0, round(rnd.uniform(0.2, 3000), 1)]),), feats
    if fam == "flory_schulz":
        return (rnd.choice([0.9, 0.5, 0.11, 0.05, 0.01, 0.0011, float("%.3g" % rnd.uniform(0.001, 0.95))]),), feats
    raise ValueError(fam)


def spec_from_seed(run_seed, tier):
    rnd = random.Random(run_seed)
    fam = FAMILIES[run_seed % len(FAMILIES)] if rnd.random() < 0.5 else rnd.choice(FAMILIES)
    params, feats = _params(rnd, fam)
    n = 36 if fam == "log_normal" else 110
    if tier == "thorough":
        n = 80 if fam == "log_normal" else 300
    qs = [(i + 0.5) / n for i in range(n)]
    qs += [1e-9, 1e-7, 1e-5, 1e-3, 1 - 1e-3, 1 - 1e-5, 1 - 1e-7, 1 - 1e-9]
    qs += [rnd.random() for _ in range(n // 4)]
    rnd.shuffle(qs)
    def fmt(x):
        x = float(x)
        forms = [repr(x), repr(x)]
        if x == int(x) and abs(x) < 1e15:
            forms.append(str(int(x)))
        if abs(x) >= 10:
            m, e = ("%.15e" % x).split("e")
            forms.append(m.rstrip("0").rstrip(".") + "e" + str(int(e)))
            forms.append(m.rstrip("0").rstrip(".") + "e+" + str(int(e)))
        if 0 < x < 1:
            forms.append(repr(x).lstrip("0"))
        s_ = rnd.choice(forms)
        return (" " + s_ + " ") if rnd.random() < 0.15 else s_

    text = f"{fam}({','.join(fmt(p) for p in params)})"
    neighbour = None
    if rnd.random() < 0.4:
        p2, f2 = _params(rnd, fam)
        if not f2 and list(p2) != list(params):
            neighbour = f"{fam}({','.join(repr(float(p)) for p in p2)})"
    return {"kind": "dist", "prop": "C11", "family": fam, "params": list(params), "text": text, "quantiles": qs, "features": feats,
            "n_grid": n, "neighbour": neighbour}


def _interval(g, lo, hi):
    ra = g.mol_prob.RememberAdd(lo)
    ra += (hi - lo)
    return ra


def _support(fam, params):
    if fam == "gauss":
        return (-math.inf, math.inf)
    if fam == "uniform":
        return (params[0], params[1])
    if fam == "log_normal":
        return (0.0, math.inf)
    if fam == "flory_schulz":
        return (1, math.inf)
    return (0, math.inf)


def execute(spec):
    g = boot.load()
    fam, params, text = spec["family"], spec["params"], spec["text"]
    feats = ["family=" + fam] + list(spec.get("features", []))
    viols = []

    def viol(inv, msg, extra_feats=()):
        viols.append({"property": "C11", "invariant": inv, "msg": f"{text}: {msg}", "features": sorted(set(feats) | set(extra_feats)),
                      "input": text})

    rd = refdist.from_params(fam, params)
    discrete = fam in ("schulz_zimm", "poisson", "flory_schulz")
    qs = spec["quantiles"]
    sched = Scheduler(0, script=[float(q) for q in qs], budget=10 * len(qs) + 100)
    world = World(sched)
    world.draw_limit = 10 ** 9
    stats = {"runs": 1, "family:" + fam: 1, "draws": 0, "draws_compared": 0}
    values = []
    with world:
        try:
            dist = g.distribution.get_distribution("|" + text + "|")
        except Exception as exc:
            viol("valid_parameters_rejected", f"constructor raised {exc!r}")
            return _result(spec, viols, stats, world, 0)
        rng = SimRng(sched)
        # a second law of the same family with other parameters lives next to the one under test (several blocks of one
        # molecule do): created after it, asked for its density now and then; it must not influence the first one
        other = None
        if spec.get("neighbour"):
            try:
                other = g.distribution.get_distribution("|" + spec["neighbour"] + "|")
                stats["neighbour_objects"] = 1
            except Exception:
                other = None
        # L: a point below the support from which interval probabilities give the reported CDF
        if fam == "gauss":
            L = params[0] - 50 * max(params[1], 1.0) - 50
        else:
            L = -1.0
        lo_s, hi_s = _support(fam, params)

        def cdf_lib(x):
            return float(dist.prob_mw(_interval(g, L, x)))

        n_fail = {}
        for qi, u in enumerate(qs):
            if other is not None and qi % 16 == 5:
                try:
                    other.prob_mw(float(rd.q(0.5)))
                except SimAbort:
                    raise
                except Exception:
                    pass
            before = sched.calls
            sched.script_pos = qi  # this draw is handed the qi-th quantile first, whatever earlier draws consumed
            try:
                v = dist.draw_mw(rng)
            except DrawDiverges as exc:
                n_fail["diverges"] = n_fail.get("diverges", 0) + 1
                if n_fail["diverges"] == 1:
                    viol("draw_does_not_terminate", f"draw for quantile {u!r} does not terminate ({exc})", ["exc=DrawDiverges"])
                continue
            except SimAbort:
                raise
            except Exception as exc:
                key = type(exc).__name__
                n_fail[key] = n_fail.get(key, 0) + 1
                if n_fail[key] == 1:
                    ef = ["exc=" + key]
                    if "updating stopped" in str(exc):
                        ef.append("msg=updating stopped")
                    viol("draw_raises", f"draw for quantile {u!r} raised {exc!r}", ef)
                continue
            used = sched.calls - before
            multi = used > 1
            if multi:
                # a sampler that uses several primitives for one draw (retry, rejection, fallback) is legal; its value is not a
                # function of one quantile, so it cannot be compared draw by draw -- it still counts for support and mean
                stats["multi_primitive_draws"] = stats.get("multi_primitive_draws", 0) + 1
            stats["draws"] += 1
            try:
                fv = float(v)
            except Exception:
                viol("draw_not_a_number", f"draw returned {v!r}")
                continue
            if not math.isfinite(fv):
                viol("draw_not_finite", f"draw for quantile {u!r} returned {fv}")
                continue
            if fv < lo_s or fv > hi_s or (discrete and fv != int(fv)):
                viol("draw_outside_support", f"draw for quantile {u!r} returned {fv}, support is [{lo_s}, {hi_s}]")
                continue
            values.append((u, fv))
            if multi:
                continue
            if other is not None and qi % 3 == 0:
                # the neighbouring law is asked for the very intervals this one is about to be asked for: what it computes
                # (or remembers) for them must not be handed to this one
                try:
                    other.prob_mw(_interval(g, L, fv))
                    if discrete:
                        other.prob_mw(_interval(g, L, fv - 1))
                except SimAbort:
                    raise
                except Exception:
                    pass
            # the same law as prob_mw reports
            try:
                if discrete:
                    c_hi = cdf_lib(fv)
                    c_lo = cdf_lib(fv - 1)
                    ok = (c_lo - 1e-9 <= u <= c_hi + 1e-9)
                    if not ok:
                        viol("draw_vs_reported_law", f"quantile {u!r} gave {fv}, but the reported CDF is {c_lo} at {fv - 1} and {c_hi} at {fv}")
                else:
                    if fam == "gauss" and params[1] == 0:
                        ok = fv == params[0]
                        if not ok:
                            viol("draw_vs_reported_law", f"zero-width gauss returned {fv}")
                    else:
                        c = cdf_lib(fv)
                        tol = 2e-6 if fam != "log_normal" else 2e-5
                        if not abs(c - u) <= tol:
                            viol("draw_vs_reported_law", f"quantile {u!r} gave {fv}, but the reported CDF there is {c}")
                stats["draws_compared"] += 1
            except SimAbort:
                raise
            except Exception as exc:
                viol("reported_law_raises", f"prob_mw(interval up to {fv}) raised {exc!r}")
                break
        for k, c in n_fail.items():
            stats["draw_fail:" + k] = c
        # documented mean from the even grid (midpoint rule on the quantile function)
        n = spec["n_grid"]
        grid = {round((i + 0.5) / n, 12) for i in range(n)}
        gv = [x for (u, x) in values if round(u, 12) in grid]
        if len(gv) >= 0.98 * n and not n_fail:
            m = sum(gv) / len(gv)
            want = rd.mean()
            # midpoint-rule truncates tails beyond 1/(2n): allow for it with the reference law's own truncated mean
            ref = sum(rd.q((i + 0.5) / n) for i in range(n)) / n
            scale = max(abs(want), 1.0)
            if abs(m - ref) > 0.02 * scale + (1.0 if discrete else 0.0):
                viol("documented_mean", f"quantile-averaged mean of the draws is {m:.6g}; the documented law (mean {want:.6g}) gives {ref:.6g} on the same grid")
        # ---- draws through the library's default generator (no rng argument): the stream is the library's one generator,
        # whichever object asks -- the parsed one or copies of it (Molecule.elements and gen_mirror hand out deep copies).
        # With the generator put back to one state, n draws by the object and one draw by each of n fresh copies coincide.
        try:
            import copy as _copy

            grng = g.core._GLOBAL_RNG
            st = grng.bit_generator.state
            a = [float(dist.draw_mw()) for _ in range(4)]
            grng.bit_generator.state = st
            b = [float(_copy.deepcopy(dist).draw_mw()) for _ in range(4)]
            grng.bit_generator.state = st
            stats["default_generator_sequences"] = 1
            if a != b:
                viol("default_generator_draws_differ_for_copies",
                     f"with the library's generator in one state, four draws by the object give {a}, one draw by each of four deep copies {b}")
        except DrawDiverges:
            pass
        except SimAbort:
            raise
        except Exception:
            pass  # draws that raise are judged above
        # ---- coherence clauses (no schedule in them) -----------------------------------------
        for name, what in unknown_name_check():
            viol("unknown_name_accepted", f"get_distribution({name!r}) gave {what}")
        try:
            _coherence(g, dist, fam, params, rd, discrete, L, viol, stats)
        except SimAbort:
            raise
        except Exception as exc:
            viol("coherence_evaluation_raises", f"{exc!r}")
    return _result(spec, viols, stats, world, stats["draws_compared"])


def _coherence(g, dist, fam, params, rd, discrete, L, viol, stats):
    # text form reproduces the parameters
    import re

    s = str(dist)
    m = re.fullmatch(r"\|([a-z_]+)\((.*)\)\|", s.strip())
    if not m or m.group(1) != fam:
        viol("text_form", f"printed as {s!r}")
    else:
        try:
            got = [float(x) for x in m.group(2).split(",")]
            if len(got) != len(params) or any(not math.isclose(a, b, rel_tol=1e-12, abs_tol=1e-12) for a, b in zip(got, params)):
                viol("text_form", f"printed as {s!r}: parameters differ from the ones written")
        except ValueError:
            viol("text_form", f"printed as {s!r}")
    if fam == "gauss" and params[1] == 0:
        return
    lo = rd.q(1e-9)
    hi = rd.q(1 - 1e-9)
    # one accumulator advanced step by step (how mol_prob walks along a chain) must be given, at every step, the probability a
    # freshly built interval with the same ends gets: the value depends on the ends, not on what was asked before
    def cdf_from_L(x):
        return float(dist.prob_mw(_interval(g, L, x)))

    # probabilities of intervals are probabilities too: never negative, never NaN -- also far out in the tails, where they
    # are the difference of two cumulative values next to 0 or 1 (get_ensemble_prob takes their logarithm)
    try:
        width = max(1.0, 0.37 * (hi - lo) / 8.0)
        starts = [hi * f for f in (1.0, 1.3, 2.0, 3.5, 6.0)] + [lo - width * k for k in (1, 3)]
        for a_ in starts:
            pi = float(dist.prob_mw(_interval(g, float(a_), float(a_) + width)))
            stats["tail_intervals"] = stats.get("tail_intervals", 0) + 1
            if not (pi >= 0) or not math.isfinite(pi):
                viol("negative_or_nonfinite_probability", f"P({float(a_)!r} < M <= {float(a_) + width!r}) is reported as {pi!r}", ["tail_interval"])
                break
    except SimAbort:
        raise
    except Exception as exc:
        viol("reported_law_raises", f"prob_mw(tail interval) raised {exc!r}")

    try:
        acc = g.mol_prob.RememberAdd(L)
        for frac in (0.08, 0.3, 0.5, 0.52, 0.75, 0.97):
            target = float(rd.q(frac))
            if discrete:
                target = float(int(target)) + 0.5
            d = target - acc.value
            if d <= 0:
                continue
            prev_val = acc.value
            acc += d
            p_run = float(dist.prob_mw(acc))
            # expected: difference of the reported cumulative law at the two ends, each asked through an interval that
            # starts below the support (other ends than the accumulator's, so nothing remembered for it can be re-used)
            p_fresh = cdf_from_L(acc.value) - (cdf_from_L(prev_val) if prev_val > L else 0.0)
            stats["accumulator_steps"] = stats.get("accumulator_steps", 0) + 1
            if not (abs(p_run - p_fresh) <= 1e-9 + 1e-9 * abs(p_fresh)):
                viol("interval_depends_on_call_history",
                     f"P({prev_val!r} < M <= {acc.value!r}) is {p_fresh!r} by the reported cumulative law but {p_run!r} for an accumulator that was advanced to these ends")
                break
    except SimAbort:
        raise
    except Exception as exc:
        viol("reported_law_raises", f"prob_mw(advanced accumulator) raised {exc!r}")
    if discrete:
        k_lo = max(0, int(math.floor(lo)) - 5)
        k_hi = int(math.ceil(hi)) + 5
        if k_hi - k_lo > 60000:
            k_hi = k_lo + 60000
        ks = list(range(k_lo, k_hi + 1))
        if len(ks) > 4000:
            # sample the interior sparsely but sum exactly through interval probabilities
            step = len(ks) // 2000
            pts = ks[::step]
        else:
            pts = ks
        ps = [float(dist.prob_mw(k)) for k in pts]
        stats["point_probabilities"] = len(ps)
        bad = [(k, p) for k, p in zip(pts, ps) if not (p >= 0) or not math.isfinite(p)]
        if bad:
            viol("negative_or_nonfinite_probability", f"prob_mw({bad[0][0]}) = {bad[0][1]}")
            return
        total = float(dist.prob_mw(_interval(g, L, k_hi)))
        tail = 1 - rd.cdf(k_hi)
        point_total = sum(ps) if len(pts) == len(ks) else None
        off = []
        if point_total is not None and abs(point_total - 1.0) > 1e-9 + tail:
            # the point probabilities themselves do not sum to one (scipy clips the cumulative sum at 1, so the reported
            # CDF can hide an excess): label violations that follow from it
            off = ["point_sum_off_one_below_5pct"] if abs(point_total - 1.0) < 0.05 else ["point_sum_off_one"]
            if abs(point_total - 1.0) > 1e-6 + tail and abs(total - 1.0) <= 1e-6 + tail:
                viol("not_normalised", f"point probabilities up to {k_hi} sum to {point_total!r}", ["deficit:below_5pct"] if abs(point_total - 1.0) < 0.05 else [])
        if abs(total - 1.0) > 1e-6 + tail:
            viol("not_normalised", f"probabilities up to {k_hi} sum to {total!r} (reference tail beyond it {tail:.2e})",
                 ["deficit:below_5pct"] if 0 < 1.0 - total < 0.05 else [])
        # ... also for intervals that start at 0 (the first unit of a block in mol_prob)
        if len(pts) == len(ks) and k_lo == 0:
            for frac in (0.3, 0.7):
                b = ks[int(frac * (len(ks) - 1))]
                if b > 0:
                    pi = float(dist.prob_mw(_interval(g, 0.0, float(b))))
                    sm = sum(p for k, p in zip(pts, ps) if 0 < k <= b)
                    if abs(pi - sm) > 1e-9 + 1e-7 * abs(sm):
                        viol("interval_vs_point_probability", f"P(0 < M <= {b}) reported as {pi!r}, point probabilities sum to {sm!r}", ["interval_from_zero"] + off)
                        break
        # ... and for interval ends that are not integers (cumulative block masses are not): P(a' < M <= b') is the sum of the
        # point probabilities of the integers in that interval
        if len(pts) == len(ks) and len(ks) > 8:
            a_ = ks[len(ks) // 3] + 0.6
            b_ = ks[(2 * len(ks)) // 3] + 0.7
            pi = float(dist.prob_mw(_interval(g, a_, b_)))
            sm = sum(p for k, p in zip(pts, ps) if a_ < k <= b_)
            if abs(pi - sm) > 1e-9 + 1e-7 * abs(sm):
                viol("interval_vs_point_probability", f"P({a_} < M <= {b_}) reported as {pi!r}, point probabilities of the integers inside sum to {sm!r}",
                     ["fractional_interval_ends"] + off)
        # interval probability equals the sum of point probabilities
        if len(pts) == len(ks):
            a = ks[len(ks) // 4]
            b = ks[(3 * len(ks)) // 4]
            if b > a:
                pi = float(dist.prob_mw(_interval(g, a, b)))
                sm = sum(p for k, p in zip(pts, ps) if a < k <= b)
                if abs(pi - sm) > 1e-9 + 1e-7 * abs(sm):
                    viol("interval_vs_point_probability", f"P({a} < M <= {b}) reported as {pi!r}, point probabilities sum to {sm!r}", off)
    else:
        n = 4001
        xs = np.linspace(lo, hi, n)
        ps = np.array([float(dist.prob_mw(float(x))) for x in xs[:: max(1, n // 400)]])
        stats["point_probabilities"] = len(ps)
        if np.any(~np.isfinite(ps)) or np.any(ps < 0):
            viol("negative_or_nonfinite_probability", "density is negative or not finite inside the support")
            return
        # integrate the density between two quantiles and compare with the reported interval probability
        a, b = rd.q(0.2), rd.q(0.8)
        if fam == "uniform":
            a, b = params[0] + 0.2 * (params[1] - params[0]), params[0] + 0.8 * (params[1] - params[0])
        xx = np.linspace(a, b, 1201)
        dens = np.array([float(dist.prob_mw(float(x))) for x in xx])
        integ = float(np.sum((dens[1:] + dens[:-1]) * np.diff(xx)) / 2.0)
        pi = float(dist.prob_mw(_interval(g, a, b)))
        if abs(pi - integ) > 2e-4:
            viol("interval_vs_point_probability", f"P({a:.6g} < M <= {b:.6g}) reported as {pi!r}, the density integrates to {integ!r}")
        total = float(dist.prob_mw(_interval(g, L if fam == "gauss" else min(lo, 0.0) - 1.0, hi)))
        if abs(total - 1.0) > 1e-5:
            viol("not_normalised", f"probability up to the 1-1e-9 reference quantile is {total!r}")


def _result(spec, viols, stats, world, compared):
    sig = hashlib.sha1(json.dumps([spec["family"], spec["params"]]).encode()).hexdigest()
    sample = {"distribution": spec["text"], "quantiles": len(spec["quantiles"]), "first_quantiles": spec["quantiles"][:4],
              "draws_compared": compared}
    return {"violations": viols, "stats": stats, "sig": sig, "nontrivial": compared >= 20, "sample": sample,
            "digest": world.digest(), "trace": None}


def shrink_candidates(spec):
    qs = spec["quantiles"]
    if len(qs) > 1:
        for part in (qs[: len(qs) // 2], qs[len(qs) // 2:]):
            c = json.loads(json.dumps(spec))
            c["quantiles"] = part
            yield c
        if len(qs) <= 8:
            for i in range(len(qs)):
                c = json.loads(json.dumps(spec))
                c["quantiles"] = qs[:i] + qs[i + 1:]
                yield c


def unknown_name_check():
    """Evaluated once per check run by the runner hook below (no schedule in it)."""
    g = boot.load()
    bad = []
    names = ["|weibull(1, 2)|", "|normal(100, 10)|", "|gaus(100, 10)|", "|schulzzimm(100,90)|",
             # names that merely begin or end with a documented name are unknown names too ("rejected" = any exception: the
             # unchanged tree refuses these with the ValueError of its argument parser)
             "|gaussian(100, 10)|", "|gauss2(100, 10)|", "|uniform_int(5, 50)|", "|poissonian(30)|", "|poisson_shifted(30)|",
             "|log_normal_mw(100, 1.2)|", "|schulz_zimm_flory(200, 100)|", "|flory_schulz2(0.05)|", "|my_gauss(100, 10)|",
             "|xuniform(1, 5)|", "|Gauss(100, 10)|", "|POISSON(30)|", "|lognormal(100, 1.2)|", "|schulz-zimm(200, 100)|"]
    for name in names:
        try:
            d = g.distribution.get_distribution(name)
            bad.append((name, type(d).__name__))
        except Exception:
            pass
    return bad
