"""C13 - ensemble generation yields complete member molecules up to the system mass."""
import hashlib
import json
import random

from .. import archetypes, sysrun

LEVEL = "fault_enumeration"
TECHNIQUE = ("deterministic simulation: live System.generator coroutines as tasks under a seeded task scheduler sharing one SimRng, "
             "with close / throw / abandon / failing-generator faults; mass ledger + per-member model audit")
RULE = ("each run = one system (1-4 components, 2-30 members' worth of mass) x one seeded schedule: 1-3 generators interleaved by the "
        "task scheduler, every component pick / growth decision by SimRng, optional faults (close, throw, abandon, rng failure inside "
        "next()) placed after k yields of a chosen generator, a replacement generator spawned after each fault; every yielded member "
        "audited against its component (C04-C06 model), ledger checked at every yield and at StopIteration; distinct = hash of (system "
        "text, op/decision sequence); non-trivial = at least 3 yields and (at least 2 generators or a fault fired)")
ASSUMPTIONS = [
    "the ensemble generator's rng is a default argument of the `generator` property; the harness rebinds that default to SimRng",
    "membership is decided by which tokens a member was built from (seam MolGen.__init__) plus the per-member model audit",
    "'a system that is not generable refuses to generate' is demanded of System.generator only (SI.md itself calls System.generate "
    "on systems without mass specifiers)",
    "composition (which component how often) is C14's business; C13 only requires that the generated component is the one picked",
]
COMPONENTS = {"real": ["System / Molecule / Stochastic / MolGen, distributions, RDKit"],
              "stub": ["3-D embedding (zero conformer)", "numpy bit generator (SimRng)"]}
FAULT_KINDS = ["gen_close", "gen_abandon", "gen_throw", "rng_raise", "rng_interrupt", "rng_value", "embed_fail"]


def plan(tier):
    return 1600 if tier == "quick" else 20000


def spec_from_seed(run_seed, tier):
    rnd = random.Random(run_seed)
    if rnd.random() < 0.04:
        text, sysw = rnd.choice(archetypes.NON_GENERABLE_KNOWN_MASS)
        return {"kind": "nongenerable", "prop": "C13", "text": text, "tags": ["non_generable", "mass_known"], "system_molweight": sysw,
                "sched": {"seed": rnd.randrange(1 << 48), "choice_policy": rnd.choice(["faithful", "first", "last", "rare"]), "draw_policy": "natural",
                          "script": None, "budget": 30000}, "n_generators": 1, "faults": [], "pulls": rnd.choice([1, 3, 10])}
    if rnd.random() < 0.05:
        text, total = archetypes.gen_open_ended_system(rnd)
        return {"kind": "open_ended", "prop": "C13", "text": text, "tags": ["open_ended_component"], "declared_mass": total,
                "sched": {"seed": rnd.randrange(1 << 48), "choice_policy": rnd.choice(["faithful", "first", "last", "rare", "uniform_support"]),
                          "draw_policy": rnd.choice(["natural", "low", "mid"]), "script": None, "budget": 30000}, "n_generators": 1, "faults": []}
    if rnd.random() < 0.06:
        text = rnd.choice(archetypes.NON_GENERABLE_SYSTEMS)
        return {"kind": "sys", "prop": "C13", "text": text, "tags": ["non_generable"], "system_molweight": None, "ops_seed": rnd.randrange(1 << 30),
                "sched": {"seed": rnd.randrange(1 << 48), "choice_policy": "faithful", "draw_policy": "natural", "script": None, "budget": 30000},
                "n_generators": 1, "faults": []}
    for _ in range(20):
        text, tags, sysw = archetypes.gen_system(rnd, {"safe_dist": rnd.random() < 0.7, "allow_selfclose": True, "allow_zero_mass": True})
        if archetypes.token_budget_ok(text):
            break
    n_gen = rnd.choice([1, 1, 2, 2, 3])
    faults = []
    if rnd.random() < 0.55:
        for _ in range(rnd.choice([1, 1, 2])):
            kind = rnd.choice(FAULT_KINDS)
            faults.append({"kind": kind, "gen": rnd.randrange(n_gen), "after_yields": rnd.choice([0, 1, 1, 2, 3, 5]),
                           "offset": rnd.randrange(0, 12), "respawn": True})
    enum = None
    if rnd.random() < (0.04 if tier == "quick" else 0.12):
        enum = 12 if tier == "quick" else 60  # crash-point enumeration inside the first next()
    return {"kind": "sys", "prop": "C13", "text": text, "tags": sorted(tags), "system_molweight": sysw, "ops_seed": rnd.randrange(1 << 30),
            "sched": {"seed": rnd.randrange(1 << 48), "choice_policy": rnd.choice(["faithful", "uniform_support", "mix", "rare"]),
                      "draw_policy": rnd.choice(["natural", "low", "mid"]), "script": None, "budget": 30000},
            "n_generators": n_gen, "faults": faults, "enumerate": enum, "siblings": rnd.random() < 0.3}


def _enumerate_crash_points(spec, max_points):
    """Fault-free pass first: number of sampling calls of the first resumption of generator 0; then the same history once per
    decision index k with a failing generator (alternating RuntimeError / KeyboardInterrupt) placed exactly there."""
    base = json.loads(json.dumps(spec))
    base["faults"] = []
    base["enumerate"] = None
    r0 = execute(base)
    if r0.get("harness_error") or r0["violations"]:
        return r0
    n_calls = int(r0["stats"].get("calls_first_resumption", 0))
    agg = r0
    for k in range(min(n_calls, max_points)):
        sp = json.loads(json.dumps(base))
        sp["faults"] = [{"kind": ("rng_raise", "rng_interrupt", "rng_value")[k % 3], "gen": 0, "after_yields": 0, "offset": k, "respawn": True}]
        r = execute(sp)
        if r.get("harness_error"):
            return r
        agg["stats"]["enumerated_crash_points"] = agg["stats"].get("enumerated_crash_points", 0) + 1
        for kk, v in r["stats"].items():
            if kk.startswith("fault") and isinstance(v, (int, float)):
                agg["stats"][kk] = agg["stats"].get(kk, 0) + v
        if r["violations"]:
            for v in r["violations"]:
                v["msg"] = f"[generator failing at decision {k} of the first next()] " + v["msg"]
            agg["violations"] = r["violations"]
            agg["resolved_spec"] = sp
            return agg
    return agg


def _exec_nongenerable(spec):
    """A system whose generable flag is False (here: mass known, one component not generable) must refuse to iterate, whichever
    component the scheduler picks.  No AST is involved: these strings are outside the reader's grammar on purpose."""
    from .. import boot
    from ..seams import World
    from ..simrng import Scheduler, SimAbort, SimRng

    g = boot.load()
    sched = Scheduler(**spec["sched"])
    world = World(sched, embed="stub")
    viols = []
    fget = g.System.generator.fget
    old = fget.__defaults__
    yielded = 0
    with world:
        fget.__defaults__ = (SimRng(sched),)
        try:
            system = g.System(spec["text"], spec["system_molweight"]) if spec["system_molweight"] else g.System(spec["text"])
            if system.generable:
                return {"harness_error": f"workload system {spec['text']!r} is reported generable", "violations": []}
            gen = system.generator
            try:
                for _ in range(spec.get("pulls", 1)):
                    next(gen)
                    yielded += 1
                viols.append({"property": "C13", "invariant": "non_generable_system_generates",
                              "msg": f"System({spec['text']!r}).generable is False, yet iterating it yielded {yielded} molecules", "features": ["mass_known"]})
            except StopIteration:
                viols.append({"property": "C13", "invariant": "non_generable_system_iterates",
                              "msg": "a system that is not generable ended iteration silently instead of refusing", "features": ["mass_known"]})
            except SimAbort:
                raise
            except Exception:
                if yielded:
                    viols.append({"property": "C13", "invariant": "non_generable_system_generates",
                                  "msg": f"System({spec['text']!r}).generable is False, yet iterating it yielded {yielded} molecules before raising",
                                  "features": ["mass_known"]})
        finally:
            fget.__defaults__ = old
    for v in viols:
        v["input"] = spec["text"]
    sig = hashlib.sha1(json.dumps([spec["text"], spec["sched"]["choice_policy"], spec.get("pulls")]).encode()).hexdigest()
    return {"violations": viols, "stats": {"runs": 1, "non_generable_known_mass_runs": 1, "tag:non_generable": 1}, "sig": sig, "nontrivial": False,
            "sample": {"system": spec["text"], "expect": "refuses"}, "digest": world.digest(), "trace": list(sched.trace)}


def _exec_open_ended(spec):
    """A system with a known mass in which one component can never be completed (open right terminal without suffix, a lone
    token with a descriptor).  Whatever the scheduler picks: every yielded molecule is complete, and iteration ends either by
    refusing (an exception) or, silently, only once the yielded mass has reached the system mass.  No AST is involved."""
    from .. import boot
    from ..seams import DrawDiverges, World, _heavy_mass
    from ..simrng import BudgetExceeded, Scheduler, SimAbort, SimRng

    g = boot.load()
    sched = Scheduler(**spec["sched"])
    world = World(sched, embed="stub")
    world.draw_limit = 10 ** 7
    viols = []
    fget = g.System.generator.fget
    old = fget.__defaults__
    stats = {"runs": 1, "open_ended_runs": 1, "tag:open_ended_component": 1, "yields": 0}
    total = 0.0
    feats = ["open_ended_component"]
    M = float(spec["declared_mass"])
    with world:
        fget.__defaults__ = (SimRng(sched),)
        try:
            system = g.System(spec["text"])
            if not system.generable:
                return {"harness_error": f"workload system {spec['text']!r} is reported not generable", "violations": []}
            if abs(float(system.system_mass) - M) > 1e-9 * M:
                viols.append({"property": "C13", "invariant": "system_mass_differs_from_specifiers",
                              "msg": f"System.system_mass is {system.system_mass!r}, the specifiers add up to {M!r}", "features": feats})
            M = float(system.system_mass)
            gen = system.generator
            try:
                for _ in range(400):
                    world.attach_count = 0
                    member = next(gen)
                    if total >= M:
                        viols.append({"property": "C13", "invariant": "yield_after_system_mass",
                                      "msg": f"a molecule was yielded although the accumulated mass {total} had reached the system mass {M}", "features": feats})
                    stats["yields"] += 1
                    w_m = _heavy_mass(member)
                    total += w_m
                    world.event({"k": "op", "op": "yield", "w": w_m, "cum": total})
                    if not member.fully_generated or len(member.bond_descriptors) != 0:
                        viols.append({"property": "C13", "invariant": "member_not_fully_generated",
                                      "msg": f"iterating {spec['text']!r} yielded a molecule with open descriptors: {member.smiles}", "features": feats})
                        break
            except StopIteration:
                stats["open_ended_completed"] = 1
                if total < M:
                    viols.append({"property": "C13", "invariant": "stopped_before_system_mass",
                                  "msg": f"iteration of {spec['text']!r} ended silently at accumulated mass {total} < system mass {M} after {stats['yields']} molecules",
                                  "features": feats})
            except (BudgetExceeded, DrawDiverges) as exc:
                fam = [e["text"].split("(")[0].strip("|") for e in world.log if e["k"] == "draw_fail"]
                viols.append({"property": "C13", "invariant": "member_generation_does_not_terminate", "msg": f"next() did not return: {exc!r}",
                              "features": feats + ["exc=" + type(exc).__name__] + (["draw_fail", "family=" + fam[-1]] if fam else [])})
            except SimAbort:
                raise
            except Exception:
                stats["open_ended_refused"] = 1  # refusing is fine: nothing incomplete was handed out
        finally:
            fget.__defaults__ = old
    for v in viols:
        v["input"] = spec["text"]
    sig = hashlib.sha1(json.dumps([spec["text"], list(sched.trace)]).encode()).hexdigest()
    return {"violations": viols, "stats": stats, "sig": sig, "nontrivial": False,
            "sample": {"system": spec["text"], "expect": "complete members only; refusal or the full system mass", "yielded_mass": total},
            "digest": world.digest(), "trace": list(sched.trace)}


def execute(spec):
    if spec.get("kind") == "nongenerable":
        return _exec_nongenerable(spec)
    if spec.get("kind") == "open_ended":
        return _exec_open_ended(spec)
    if spec.get("enumerate"):
        return _enumerate_crash_points(spec, spec["enumerate"])
    r = sysrun.run_system(spec["text"], spec["ops_seed"], dict(spec["sched"]), n_generators=spec["n_generators"], faults=spec["faults"],
                          props=("C04", "C05", "C06"), system_molweight=spec.get("system_molweight"),
                          sibling_systems=bool(spec.get("siblings")), screen_first=spec["ops_seed"] % 4 == 0)
    if r.get("harness_error"):
        return r
    viols = r["violations"]
    for v in viols:
        v.setdefault("features", [])
        v["features"] = sorted(set(v["features"]) | set(spec.get("tags", [])))
        v["input"] = spec["text"]
    stats = dict(r["stats"])
    fired = sum(v for k, v in stats.items() if k.startswith("fault:"))  # faults that actually landed
    for t in spec.get("tags", []):
        if t.startswith(("components:", "mix:", "arch:")) or t == "non_generable":
            stats["tag:" + t] = 1
    stats["events"] = r.get("n_events", 0)
    ops = [(h["g"], h["yields"], h["dead"]) for h in r.get("histories", [])]
    sig = hashlib.sha1(json.dumps([spec["text"], ops, r.get("trace")], default=str).encode()).hexdigest()
    nontrivial = stats.get("yields", 0) >= 3 and (spec["n_generators"] >= 2 or fired > 0)
    sample = {"system": spec["text"], "system_molweight": spec.get("system_molweight"), "generators": spec["n_generators"], "faults": spec["faults"],
              "histories": r.get("histories"), "system_mass": r.get("system_mass")}
    return {"violations": viols, "stats": stats, "sig": sig, "nontrivial": nontrivial, "sample": sample, "digest": r["digest"],
            "trace": r.get("trace")}


def shrink_candidates(spec):
    if spec["faults"]:
        for i in range(len(spec["faults"])):
            c = json.loads(json.dumps(spec))
            del c["faults"][i]
            yield c
    if spec["n_generators"] > 1:
        c = json.loads(json.dumps(spec))
        c["n_generators"] -= 1
        c["faults"] = [f for f in c["faults"] if f["gen"] < c["n_generators"]]
        yield c
