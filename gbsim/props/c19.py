"""C19 - ensemble probability of linear directed chains equals generation probability.

The oracle is the generator itself under the simulator: for every block the quantile handed to its target draw is
scheduled, and the set of quantiles that produces each chain length is located by bisection *through the real generator*
(boundaries to 1e-9).  P_gen(molecule) = product over blocks of the measure of that set.  get_ensemble_prob(smiles,
molecule)[0] must equal it; the values sum to the same total over the enumerated lengths; a molecule outside the ensemble
gets 0; atom renumberings of the queried SMILES give the same value.
"""
import hashlib
import json
import random
import signal

from rdkit import Chem

from .. import archetypes, boot, genrun, reader
from ..genrun import WallTimeout, _alarm
from ..simrng import Scheduler
from . import gencommon as gc

LEVEL = "exploration"
TECHNIQUE = ("deterministic simulation: scripted quantile schedules through the real generator locate, by bisection, the quantile set "
             "producing each chain; its measure is compared with get_ensemble_prob")
RULE = ("each run = one linear chain input (1-3 blocks of one directed unit, prefix or end-group start, any family) x bisection of "
        "every length boundary of every block (24 generations per boundary) x 2-6 queried molecules (+ renumbered and perturbed "
        "variants); distinct = hash of input; non-trivial = at least 2 chain lengths with probability > 1e-4 compared")
ASSUMPTIONS = [
    "block sizes are independent and monotone in their quantile (that is C09, checked there)",
    "the generator's law is the reference, as the property states; boundaries are located to 1e-9, comparison tolerance 1e-6",
    "inputs are linear: one repeat unit per block with one '<' and one '>' descriptor, at most one end group per symbol",
    "draws that raise / do not terminate (C11 findings) end the run without verdict (counted)",
]
COMPONENTS = {"real": ["generator, distributions, mol_prob.get_ensemble_prob"], "stub": ["3-D embedding", "numpy bit generator (SimRng)"]}
UNITS_ASYM = ["{0}C(N)C{1}", "{0}CCO{1}", "{0}C(=O)C{1}", "{0}[Si](C)(C)O{1}", "{0}CS{1}", "{0}CC(=O)O{1}", "{0}C(C#N)C{1}",
              # attachment atoms written in brackets with their hydrogens / an isotope label (the same units as CO, NCC, CC(=O)N ...)
              "{0}[CH2]O{1}", "{0}[NH]CC{1}", "{0}[CH2]C(=O)N{1}", "{0}[13CH2]S{1}",
              # a pendant atom on one attachment atom with the element of the other attachment atom: the fragment also matches
              # across the junction into the neighbouring unit (the match enumeration must tell the copies apart)
              "{0}C(C)C(F){1}", "{0}C(C)C(=O){1}", "{0}N(C)C(=O)N{1}"]
UNITS_HALO = ["{0}CC(Cl){1}", "{0}CC(F){1}"]
# units whose fragment has an automorphism that moves an attachment atom (known finding F-symmetric), and ring units
UNITS_SYM = ["{0}CC{1}", "{0}C{1}", "{0}COC{1}", "{0}CC(C)({1})C(=O)OC", "{0}CC({1})c1ccccc1"]
# clean class: terminal tokens are single atoms of an element that occurs nowhere else, so no pattern of a terminal token matches
# inside the chain and the product has no automorphism that permutes residues
PREFIX_CLEAN = ["[H]", "Br", "I"]
PREFIX_ANY = PREFIX_CLEAN + ["CC(C)", "C", "CC", "OCC", "N", "FC", "ClCC"]
SUFFIX_CLEAN = ["F", "Cl"]
SUFFIX_ANY = SUFFIX_CLEAN + ["[Si]", "CO", "CC[Si]"]
CONNECT_ANY = ["O", "CCN", "C[Si]", "CC[Si]CC", "CNC"]


def plan(tier):
    return 200 if tier == "quick" else 2000


VARIANTS = ["clean"] * 6 + ["connector"] * 3 + ["same_unit"] * 2 + ["end_start_two"] * 2 + ["end_start", "end_start_open", "sym_unit", "zero_width", "broad_gauss", "ambiguous_terminal", "same_atom_unit",
                          "symmetric_product"]


def spec_from_seed(run_seed, tier):
    """A clean base (single-atom terminals of unique elements, asymmetric distinct units, narrow positive laws) on which the
    unchanged tree agrees with the generator, plus variants that each add exactly ONE feature with a known mol_prob finding."""
    rnd = random.Random(run_seed)
    variant = rnd.choice(VARIANTS)
    nb = rnd.choice([1, 1, 2, 2, 3]) if variant in ("clean", "zero_width", "broad_gauss", "ambiguous_terminal") else 1
    if variant == "connector":
        nb = rnd.choice([2, 2, 3])
    if variant == "same_unit":
        nb = 2
    units = rnd.sample(UNITS_ASYM, nb)
    if variant == "same_unit":
        # two adjacent blocks of the SAME unit: a chain of n units is produced by every split n = k + (n - k), its probability is
        # the sum over the splits
        units = [units[0], units[0]]
    if variant == "sym_unit":
        units = [rnd.choice(["{0}CC{1}", "{0}COC{1}", "{0}CC(C)({1})C(=O)OC"])]
    if variant == "same_atom_unit":
        units = ["{0}C{1}"]
    if variant == "symmetric_product":
        units = ["{0}C(N)C{1}"]
    blocks = []
    fams = []
    for bi, u in enumerate(units):
        fam = rnd.choice(archetypes.FAMILIES)
        dist, fam = archetypes.make_dist(rnd, archetypes.unit_mass(u), rnd.choice([1, 2, 3, 4]), fam)
        T = archetypes.unit_mass(u) * rnd.choice([2, 3, 4])
        if fam == "gauss":
            # narrow, strictly positive law: zero width / mass below zero are separate variants
            dist = "|gauss(%r, %r)|" % (round(T, 3), round(T / rnd.choice([6, 8, 12]), 3))
        if bi == 0 and variant == "zero_width":
            fam, dist = "gauss", "|gauss(%r, 0)|" % round(T * 0.9, 3)
        if bi == 0 and variant == "broad_gauss":
            fam, dist = "gauss", "|gauss(%r, %r)|" % (round(T, 3), round(T * 0.6, 3))
        fams.append(fam)
        blocks.append((u, dist))
    tags = ["variant:" + variant] + ["family:" + f for f in fams]
    prefix = rnd.choice(PREFIX_CLEAN)
    suffix = rnd.choice(SUFFIX_CLEAN)
    # clean class: the element of a terminal token occurs nowhere else (a unit with a pendant F takes the Cl suffix and vice versa)
    used_all = "".join(u for u, _ in blocks)
    if suffix == "F" and "F" in used_all:
        suffix = "Cl"
    elif suffix == "Cl" and "Cl" in used_all:
        suffix = "F"
    if variant == "ambiguous_terminal":
        prefix, blocks[0] = "OCC", ("{0}CCO{1}", blocks[0][1])
    if variant == "symmetric_product":
        prefix = "N"
    if variant == "end_start":
        u, dist = blocks[0]
        text = "{[]" + u.format("[<]", "[>]") + "; [<]" + rnd.choice(["[H]", "F", "Br"]) + ", [>]" + rnd.choice(["Cl", "I"]) + " []}" + dist
    elif variant == "end_start_two":
        # two end groups WITHOUT heavy-atom mass compete for the start ([H] and [2H]: the finding about the start group's mass
        # does not apply), a suffix closes the far end: probability = weight share of the start group x block law
        u, dist = blocks[0]
        w1, w2 = rnd.choice([("", "|3|"), ("|3|", ""), ("|0.5|", "|2|"), ("", ""), ("|7|", "|1|")])
        text = "{[]" + u.format("[<]", "[>]") + "; [<" + w1 + "][H], [<" + w2 + "][2H] [>]}" + dist + rnd.choice(["CO", "Cl", "F", "CC"])
    elif variant == "end_start_open":
        u, dist = blocks[0]
        text = "{[]" + u.format("[<]", "[>]") + "; " + rnd.choice(["[H]", "F", "Br"]) + "[>] [<]}" + dist + rnd.choice(["Cl", "I"])
    else:
        text = prefix
        used = "".join(u for u, _ in blocks)
        # connector tokens between blocks: single two-valent atoms of an element that occurs nowhere else (clean class)
        conns = [c for c, el in (("S", "S"), ("[Se]", "Se"), ("O", "O"), ("[Te]", "Te")) if el not in used]
        # direction of growth: {[>] [<]U[>] [<]} grows from the unit's '>' atom, {[<] [<]U[>] [>]} (30 %) from its '<' atom
        rev = rnd.random() < 0.3
        if rev:
            tags.append("direction:reversed")
        for bi, (u, dist) in enumerate(blocks):
            if bi > 0 and variant == "connector" and conns:
                text += conns.pop(rnd.randrange(len(conns)))
            text += ("{[<]" + u.format("[<]", "[>]") + "[>]}" if rev else "{[>]" + u.format("[<]", "[>]") + "[<]}") + dist
        text += suffix
    # a query against ANOTHER molecule that fails (unparsable SMILES, or a law whose interval probability raises) precedes the
    # queries of this run in 40 % of the runs: whatever the failed search leaves behind must not reach the next one
    poison = None
    if rnd.random() < 0.4:
        pu = rnd.choice(UNITS_ASYM)
        ppre, psuf = rnd.choice(["I", "Br", "[H]", "Cl"]), rnd.choice(["F", "Cl", "I"])
        body = pu.format("", "")
        if rnd.random() < 0.5:
            poison = {"text": ppre + "{[>]" + pu.format("[<]", "[>]") + "[<]}|gauss(%r, %r)|" % (round(3 * archetypes.unit_mass(pu), 2), round(0.4 * archetypes.unit_mass(pu), 2)) + psuf,
                      "smiles": rnd.choice(["not-a-smiles((", "C1CC", "[Xx]CC", ""])}
        else:
            # zero-width gauss: prob_mw raises at the very end of the search for a chain that matches completely
            poison = {"text": ppre + "{[>]" + pu.format("[<]", "[>]") + "[<]}|gauss(%r, 0)|" % round(2.5 * archetypes.unit_mass(pu), 2) + psuf,
                      "smiles": (ppre if ppre != "[H]" else "[H]") + body * 3 + psuf}
    return {"kind": "ensprob", "prop": "C19", "text": text, "tags": tags, "seed": rnd.randrange(1 << 30), "perm_seed": rnd.randrange(1000),
            "poison": poison, "start_choice": rnd.choice(["first", "last"]) if variant == "end_start_two" else "first"}


def input_features(ast):
    """Features of the input that identify the known findings, computed from the AST only."""
    import math

    feats = []
    first = ast.elements[0]
    if hasattr(first, "dist") and first.left.sym == "":
        # (the finding is about the MASS of the starting end group: end groups without heavy atoms are not affected)
        if any(t.mass > 0 for t in first.ends):
            feats.append("start=end_group")
        else:
            feats.append("start=massless_end_group")
    for e in ast.elements:
        if hasattr(e, "dist") and e.dist.family == "gauss":
            mu, sig = e.dist.params
            if sig == 0:
                feats.append("zero_width_gauss")
            elif 0.5 * math.erfc(mu / sig / math.sqrt(2)) > 1e-7:
                feats.append("gauss_negative_tail")
    for t in ast.residues():
        if len(set(t.sites)) < len(t.sites):
            feats.append("two_descriptors_on_one_atom")
        try:
            m = Chem.Mol(t.frag)
            Chem.SanitizeMol(m)
            for match in m.GetSubstructMatches(m, uniquify=False, maxMatches=64):
                if any(match[s_] != s_ for s_ in t.sites):
                    feats.append("automorphism_moves_attachment")
                    break
        except Exception:
            pass
    return sorted(set(feats))


def pattern_matches_elsewhere(mg, residues_of_uid, only=None):
    """Does some token's fragment, used as a substructure pattern, also match atoms that are not one of its own instances?
    (mol_prob then has to tell the assignments apart)"""
    try:
        m = mg.mol
        pp = Chem.SmilesParserParams()
        pp.removeHs = False
        own = {}
        for (u, off, n) in mg._gb_inst:
            tok = residues_of_uid[u]
            own.setdefault(id(tok), (tok, set()))[1].add(frozenset(range(off, off + n)))
        for tok, sets in own.values():
            if only is not None and not any(tok is t for t in only):
                continue
            q = Chem.Mol(tok.frag)
            Chem.SanitizeMol(q)
            for match in m.GetSubstructMatches(q, uniquify=True, maxMatches=500):
                if frozenset(match) not in sets:
                    return True
    except Exception:
        pass
    return False


def product_permutes_residues(mg):
    """Does the generated molecule have an automorphism that maps an atom into another residue instance?"""
    try:
        m = mg.mol
        inst = {}
        for (u, off, n) in mg._gb_inst:
            for a in range(off, off + n):
                inst[a] = u
        for match in m.GetSubstructMatches(m, uniquify=False, maxMatches=200):
            if any(inst.get(i) != inst.get(j) for i, j in enumerate(match)):
                return True
    except Exception:
        pass
    return False


def execute(spec):
    g = boot.load()
    text = spec["text"]
    try:
        ast = reader.read_molecule(text).build()
    except Exception as exc:
        return {"harness_error": f"reader failed: {exc!r}", "violations": []}
    feats = sorted(set(spec.get("tags", [])) | set(input_features(ast)))
    viols = []
    stats = {"runs": 1, "generations": 0, "lengths_compared": 0, "queries": 0}

    def viol(inv, msg, extra=()):
        viols.append({"property": "C19", "invariant": inv, "msg": msg, "features": feats + list(extra), "input": text})

    stoch_idx = [i for i, e in enumerate(ast.elements) if hasattr(e, "dist")]
    nb = len(stoch_idx)
    digests = []
    terminal_tokens = [e for e in ast.elements if not hasattr(e, "dist")] + [t for e in ast.elements if hasattr(e, "dist") for t in e.ends]

    class Failed(Exception):
        pass

    parsed = {}

    def run_with(us):
        class QSched(Scheduler):
            def __init__(self2):
                super().__init__(spec["seed"], choice_policy=spec.get("start_choice", "first"), draw_policy="natural", budget=6000)

            def _policy_u(self2):
                k = (self2.draw_ctx or {}).get("block", 0)
                return us[min(k, len(us) - 1)]

        counter = {"n": 0}

        def ctx_fn(dist_obj):
            k = counter["n"]
            counter["n"] += 1
            return {"block": k, "u_cap": None}

        out = genrun.run_molecule(text, None, props=("C07",), embed="stub", ast=ast, sched_obj=QSched(), draw_ctx_fn=ctx_fn, wall=150,
                                  reuse_obj=parsed.get("obj"))
        if out.mol_obj is not None:
            parsed["obj"] = out.mol_obj
        stats["generations"] += 1
        if out.harness_error:
            raise Failed(out.harness_error)
        if out.exc is not None or out.result is None:
            raise Failed(f"generation failed: {out.exc!r}")
        digests.append(out.world.digest())
        recs = {r["ei"]: len(r["added"]) for r in getattr(out.audit, "stop_records", [])}
        run_with.uid_tok = {u: rec["tok"] for u, rec in out.audit.inst.items()}
        return [recs.get(ei) for ei in stoch_idx], out.smiles, out.mol_obj, out.result

    old = signal.signal(signal.SIGALRM, _alarm)
    signal.alarm(700)
    try:
        base_us = [0.5] * nb
        # per block: probability of every length
        P = []
        rep_u = []
        support = []  # per block: the lengths quantiles 1e-9 and 1 - 1e-9 produce
        try:
            for b in range(nb):
                def n_of(u, b=b):
                    us = list(base_us)
                    us[b] = u
                    return run_with(us)[0][b]

                lo_n = n_of(1e-9)
                hi_n = n_of(1 - 1e-9)
                if lo_n is None or hi_n is None:
                    raise Failed("block size not observable")
                support.append((lo_n, hi_n))
                hi_n = min(hi_n, lo_n + 5)
                bounds = [0.0]
                for k in range(lo_n, hi_n):
                    a, c = bounds[-1] if bounds[-1] > 0 else 1e-9, 1 - 1e-9
                    # largest u with n(u) <= k
                    for _ in range(24):
                        m = 0.5 * (a + c)
                        if n_of(m) <= k:
                            a = m
                        else:
                            c = m
                    bounds.append(0.5 * (a + c))
                bounds.append(1.0)
                probs = {}
                reps = {}
                for i, k in enumerate(range(lo_n, hi_n + 1)):
                    probs[k] = bounds[i + 1] - bounds[i]
                    reps[k] = 0.5 * (bounds[i] + bounds[i + 1]) if bounds[i + 1] - bounds[i] > 1e-8 else None
                if hi_n < n_of(1 - 1e-9):
                    probs[hi_n] = None  # open-ended: the last enumerated length absorbs the tail, not compared
                P.append(probs)
                rep_u.append(reps)
        except Failed as f:
            stats["aborted_by_failed_generation"] = 1
            return _result(spec, viols, stats, digests, 0)
        # two adjacent blocks of one unit: the chain with n units in total is every split (k, n - k); its probability is the sum
        # of the products over all splits.  Compared for totals whose every split lies inside the enumerated (fully known) lengths.
        if "variant:same_unit" in spec.get("tags", []) and nb == 2:
            known = [{k: p for k, p in P[b].items() if p is not None} for b in range(2)]
            lo = [min(P[b]) for b in range(2)]
            for n_tot in range(lo[0] + lo[1], lo[0] + lo[1] + 8):
                splits = [(k, n_tot - k) for k in range(lo[0], n_tot - lo[1] + 1)]
                # lengths below the 1e-9 quantile's length have probability < 1e-9: ignored; every other split must be fully known
                if not splits or any(k not in known[0] or m not in known[1] for k, m in splits):
                    continue
                p_gen = sum(known[0][k] * known[1][m] for k, m in splits)
                if p_gen < 1e-4:
                    continue
                k0, m0 = max(splits, key=lambda km: known[0][km[0]] * known[1][km[1]])
                if rep_u[0].get(k0) is None or rep_u[1].get(m0) is None:
                    continue
                try:
                    ns, smi, mol, mg = run_with([rep_u[0][k0], rep_u[1][m0]])
                except Failed:
                    continue
                if ns != [k0, m0]:
                    continue
                try:
                    p_lib = float(g.mol_prob.get_ensemble_prob(smi, mol)[0])
                except Exception as exc:
                    viol("ensemble_prob_raised", f"get_ensemble_prob({smi!r}) raised {exc!r}", ["exc=" + type(exc).__name__])
                    break
                stats["queries"] += 1
                stats["lengths_compared"] += 1
                stats["split_sums_compared"] = stats.get("split_sums_compared", 0) + 1
                if abs(p_lib - p_gen) > 2e-6 + 1e-5 * p_gen:
                    ex = []
                    if product_permutes_residues(mg):
                        ex.append("product_automorphism_permutes_residues")
                    if pattern_matches_elsewhere(mg, run_with.uid_tok, terminal_tokens):
                        ex.append("terminal_token_pattern_matches_elsewhere")
                    viol("probability_differs_from_generator",
                         f"{n_tot} units of one repeat unit over two adjacent blocks: get_ensemble_prob({smi!r}) = {p_lib!r}, generation produces it with "
                         f"probability {p_gen!r} (sum over the splits {splits})", ex)
                    break
            return _result(spec, viols, stats, digests, stats["lengths_compared"])
        # queries ------------------------------------------------------------------------------------
        cand = []
        for b in range(nb):
            ks = [k for k, p in P[b].items() if p is not None and p > 1e-4 and rep_u[b].get(k) is not None]
            ks.sort(key=lambda k: -P[b][k])
            cand.append(ks[:3] if nb > 1 else ks[:6])  # a single block: every enumerated length (the values must sum up too)
        if any(not c for c in cand):
            return _result(spec, viols, stats, digests, 0)
        combos = [[]]
        for c in cand:
            combos = [x + [k] for x in combos for k in c]
        combos = combos[:6]
        total_lib = 0.0
        total_gen = 0.0
        last = None
        if spec.get("poison"):
            try:
                other = g.Molecule(spec["poison"]["text"])
                try:
                    g.mol_prob.get_ensemble_prob(spec["poison"]["smiles"], other)
                    stats["preceding_query_did_not_fail"] = 1
                except Exception:
                    stats["preceding_failed_queries"] = 1
            except Exception:
                pass
        # probability of the starting end group (massless end-group start): its weight share among all end-group descriptors
        p_start = 1.0
        if "variant:end_start_two" in spec.get("tags", []):
            from ..notation import weights_rule

            e0 = ast.elements[0]
            ws = weights_rule([t.descs[k].weight for t, k in e0.ebonds()])
            p_start = ws[0] if spec.get("start_choice", "first") == "first" else ws[-1]
            stats["start_group_probability_used"] = 1
        for combo in combos:
            us = [rep_u[b][k] for b, k in enumerate(combo)]
            try:
                ns, smi, mol, mg = run_with(us)
            except Failed:
                continue
            if ns != combo:
                viol("oracle_inconsistent", f"quantiles {us} were expected to give lengths {combo}, got {ns}")
                break
            p_gen = p_start
            for b, k in enumerate(combo):
                p_gen *= P[b][k]
            try:
                p_lib = float(g.mol_prob.get_ensemble_prob(smi, mol)[0])
            except Exception as exc:
                viol("ensemble_prob_raised", f"get_ensemble_prob({smi!r}) raised {exc!r}", ["exc=" + type(exc).__name__])
                break
            stats["queries"] += 1
            stats["lengths_compared"] += 1
            total_lib += p_lib
            total_gen += p_gen
            last = (smi, mol, p_lib)
            last_mg = mg
            if abs(p_lib - p_gen) > 1e-6 + 1e-5 * p_gen:
                ex = []
                if p_lib == 0:
                    ex.append("reported_zero")
                if product_permutes_residues(mg):
                    ex.append("product_automorphism_permutes_residues")
                if pattern_matches_elsewhere(mg, run_with.uid_tok, terminal_tokens):
                    ex.append("terminal_token_pattern_matches_elsewhere")
                viol("probability_differs_from_generator",
                     f"chain lengths {combo}: get_ensemble_prob({smi!r}) = {p_lib!r}, generation produces it with probability {p_gen!r}", ex)
                break
        if last is not None and not viols:
            smi, mol, p_lib = last
            # atom order of the queried SMILES must not matter
            pp = Chem.SmilesParserParams()
            pp.removeHs = False  # an explicit [H] token is an atom of the molecule
            m = Chem.MolFromSmiles(smi, pp)
            perm = list(range(m.GetNumAtoms()))
            random.Random(spec["perm_seed"]).shuffle(perm)
            smi2 = Chem.MolToSmiles(Chem.RenumberAtoms(m, perm), canonical=False)
            try:
                p2 = float(g.mol_prob.get_ensemble_prob(smi2, mol)[0])
                stats["queries"] += 1
                if abs(p2 - p_lib) > 1e-9 + 1e-9 * p_lib:
                    ex = ["renumbered_value_zero"] if p2 == 0 else []
                    if pattern_matches_elsewhere(last_mg, run_with.uid_tok, terminal_tokens):
                        ex.append("terminal_token_pattern_matches_elsewhere")
                    if product_permutes_residues(last_mg):
                        ex.append("product_automorphism_permutes_residues")
                    viol("depends_on_atom_order", f"{smi!r} -> {p_lib!r} but the same molecule written {smi2!r} -> {p2!r}", ex)
            except Exception as exc:
                viol("ensemble_prob_raised", f"get_ensemble_prob({smi2!r}) raised {exc!r}", ["exc=" + type(exc).__name__])
            # a molecule outside the ensemble
            for bad in (smi + "[Xe]", "[Xe]" + smi if not smi.startswith("[H]") else smi.replace("[H]", "[Xe]", 1)):
                mb = Chem.MolFromSmiles(bad, pp)
                if mb is None:
                    continue
                try:
                    pb = float(g.mol_prob.get_ensemble_prob(Chem.MolToSmiles(mb), mol)[0])
                    stats["queries"] += 1
                    if pb != 0:
                        viol("outside_molecule_positive", f"{bad!r} is not in the ensemble of {text!r} but gets probability {pb!r}")
                except Exception:
                    pass
            # chains the generator (practically) never produces: a block shorter than the 1e-9 quantile gives or longer than
            # the 1 - 1e-9 quantile gives has generation probability below 1e-9, so the reported value must be that small too
            variant = [t for t in spec.get("tags", []) if t.startswith("variant:")]
            if not viols and variant and variant[0] in ("variant:clean", "variant:connector") and len(support) == nb:
                modal = [max((k for k in P[b] if P[b][k] is not None), key=lambda k: P[b][k], default=None) for b in range(nb)]
                if all(m is not None for m in modal):
                    for b in range(nb):
                        lo_b, hi_b = support[b]
                        for n_out in ([lo_b - 1] if lo_b - 1 >= 1 else []) + [hi_b + 1, hi_b + 3]:
                            ks = list(modal)
                            ks[b] = n_out
                            targets = [(k - 0.5) * ast.elements[stoch_idx[j]].repeats[0].mass for j, k in enumerate(ks)]
                            o = genrun.run_molecule(text, {"seed": spec["seed"], "choice_policy": "first", "draw_policy": "natural", "budget": 6000},
                                                    props=("C07",), embed="stub", ast=ast, forced_draws=targets, wall=150, reuse_obj=parsed.get("obj"))
                            stats["generations"] += 1
                            if o.harness_error or o.exc is not None or o.result is None:
                                continue
                            got = {r["ei"]: len(r["added"]) for r in getattr(o.audit, "stop_records", [])}
                            if [got.get(ei) for ei in stoch_idx] != ks:
                                continue
                            try:
                                p_out = float(g.mol_prob.get_ensemble_prob(o.smiles, parsed.get("obj"))[0])
                            except Exception:
                                continue
                            stats["queries"] += 1
                            stats["outside_lengths_queried"] = stats.get("outside_lengths_queried", 0) + 1
                            if not (p_out <= 1e-7):
                                viol("outside_molecule_positive",
                                     f"block {b} with {n_out} units (quantiles 1e-9 .. 1-1e-9 of its law give {lo_b} .. {hi_b} units): generation probability is "
                                     f"below 1e-9, get_ensemble_prob({o.smiles!r}) = {p_out!r}")
                                break
                        if viols:
                            break
    except WallTimeout:
        return {"harness_error": "wall-clock watchdog fired", "violations": []}
    finally:
        signal.alarm(0)
        signal.signal(signal.SIGALRM, old)
    return _result(spec, viols, stats, digests, stats["lengths_compared"])


def _result(spec, viols, stats, digests, compared):
    sig = hashlib.sha1(spec["text"].encode()).hexdigest()
    for t in spec.get("tags", []):
        stats["tag:" + t] = 1
    sample = {"input": spec["text"], "generations": stats.get("generations"), "lengths_compared": compared}
    dg = hashlib.sha256("".join(digests).encode()).hexdigest()
    return {"violations": viols, "stats": stats, "sig": sig, "nontrivial": compared >= 2, "sample": sample, "digest": dg, "trace": None}


def _sym_units_in(text):
    import re

    bare = re.sub(r"\|[^|\]]*\|\]", "]", text)
    return {u for u in UNITS_SYM if u.format("[<]", "[>]") in bare}


def shrink_candidates(spec):
    # a simplification must stay inside the input class of the run: replacing a unit by a symmetric one (CC, COC ...) would turn
    # any violation into the recorded finding F-symmetric under the tags of the original class
    have = _sym_units_in(spec["text"])
    for t in gc.simpler_texts(spec["text"]):
        if _sym_units_in(t) - have:
            continue
        c = json.loads(json.dumps(spec))
        c["text"] = t
        yield c
