"""C09 - block sizes in an ensemble follow the declared molecular-weight distribution.

Two kinds of simulated runs:
 perdraw  a generation of a random archetype; for every target draw the scheduler knows the quantile u it
          handed to the family's primitive; the returned target t must be the u-quantile of the *documented*
          law (closed forms in refdist.py), judged in probability space:
          F_ref(t - 1) - delta <= u <= F_ref(t + 1) + delta, delta = 1e-4.  One draw per block, each from the
          block's own declared family and parameters.
 sweep    a linear chain of one to three blocks of one repeat unit; the block's quantile is swept over a grid
          through the whole generator while the other blocks' quantiles are held; the number of units n(u) must
          be the first n with S_n > Q_ref(u) (S_n cumulative added mass), again with delta / one mass unit of
          slack, and must not depend on the other blocks' quantiles (a coarse 2-D sweep).
Together with C07's stop rule this is "P(stop after n) = F(S_n) - F(S_{n-1})".
"""
import hashlib
import json
import random

from .. import archetypes, genrun, reader, refdist
from . import gencommon as gc

LEVEL = "exploration"
TECHNIQUE = ("deterministic simulation: the quantile behind every target draw is a scheduled event; returned targets and resulting "
             "block sizes are compared with closed-form quantiles of the documented law (probability-space tolerance)")
RULE = ("perdraw runs: one random input x one seeded schedule, every draw compared; sweep runs: one linear 1-3 block input x a "
        "quantile grid (40 points quick, 200 thorough, plus tails) per block through the whole generator; distinct = hash of (input, "
        "schedule / grid); non-trivial = at least 2 draws (perdraw) or at least 20 grid points (sweep) compared")
ASSUMPTIONS = gc.ASSUMPTIONS_COMMON + [
    "reference laws are closed forms of the documented formulas with the documented parameter order (refdist.py); "
    "schulz_zimm / flory_schulz are tabulated on integers by the library, hence one mass unit of slack; delta=1e-4 covers the "
    "library's missing renormalisation of schulz_zimm (a C11 finding)",
    "draws that raise or do not terminate are C11 / C06 findings and are skipped here",
]
COMPONENTS = gc.COMPONENTS
DELTA = 1e-4

SWEEP_UNITS = ["{0}CC{1}", "{0}CC({1})c1ccccc1", "{0}CCO{1}", "{0}C(N)C{1}", "{0}[Si](C)(C)O{1}", "{0}CC(C)({1})C(=O)OC", "{0}C{1}",
               # isotope-labelled units: the mass that counts is the mass of the atoms as written (13C 13.003, 18O 17.999)
               "{0}[13CH2][13CH2]{1}", "{0}C[18O]C{1}", "{0}[13CH2]C({1})Cl", "{0}CC({1})C([2H])([2H])[2H]", "{0}CS{1}"]


def plan(tier):
    return 900 if tier == "quick" else 6000


def spec_from_seed(run_seed, tier):
    rnd = random.Random(run_seed)
    if rnd.random() < 0.6:
        spec = gc.make_spec(run_seed, tier, "C09", forced_prob=0.0)
        spec["kind"] = "perdraw"
        spec["sched"]["draw_policy"] = rnd.choice(["natural", "natural", "tails", "low", "high"])
        return spec
    n_blocks = rnd.choice([1, 1, 2, 3])
    text = rnd.choice(["C", "CC", "[H]", "OC"])
    fams = []
    for b in range(n_blocks):
        u = rnd.choice(SWEEP_UNITS)
        fam = rnd.choice(archetypes.FAMILIES)
        dist, fam = archetypes.make_dist(rnd, archetypes.unit_mass(u), rnd.choice([1, 2, 4, 7, 12]), fam)
        r = rnd.random()
        if r < 0.05:
            # parameter regions with known findings (reported as KNOWN-FINDING, see known_findings.json)
            fam, dist = "schulz_zimm", "|schulz_zimm(%d, %d)|" % (int(archetypes.unit_mass(u) * 12), int(archetypes.unit_mass(u) * 5))
        elif r < 0.10:
            fam = "uniform"
            lo = archetypes.unit_mass(u) * rnd.choice([1, 3])
            dist = "|uniform(%.1f, %.1f)|" % (lo + 0.7, lo * 2 + 10.9)
        fams.append(fam)
        text += "{[>]" + u.format("[<]", "[>]") + "[<]}" + dist
    text += rnd.choice(["C", "[H]", "CO", "F"])
    npts = 40 if tier == "quick" else 200
    return {"kind": "sweep", "prop": "C09", "text": text, "tags": ["arch:sweep_linear"] + ["family:" + f for f in fams],
            "n_blocks": n_blocks, "block": rnd.randrange(n_blocks), "npts": npts,
            "others_u": [round(rnd.uniform(0.05, 0.95), 6) for _ in range(n_blocks)],
            "grid2d": rnd.random() < 0.3 and n_blocks >= 2, "seed": rnd.randrange(1 << 30)}


def _check_draw(viols, text, feats, d_ast, u, t, where):
    rd = refdist.from_params(d_ast.family, d_ast.params)
    lo = rd.cdf(t - 1.0) - DELTA - _sz_deficit(d_ast)
    hi = rd.cdf(t + 1.0) + DELTA
    if not (lo <= u <= hi):
        viols.append({"property": "C09", "invariant": "target_not_quantile_of_declared_law",
                      "msg": f"{where}: quantile {u!r} of {d_ast.text()} gave target {t!r}; documented law has CDF {rd.cdf(t - 1.0):.6g} at t-1 "
                             f"and {rd.cdf(t + 1.0):.6g} at t+1 (reference quantile {rd.q(u):.6g})",
                      "features": feats + _region(d_ast), "input": text})
        return False
    return True


_DEFICIT = {}


def _sz_deficit(d):
    """The library tabulates the Schulz-Zimm density on integers without renormalising (C11 finding F-sz-norm): its CDF lies
    below the documented one by at most 1 - sum_k pdf(k).  Computed here from the documented formula, independently."""
    if d.family != "schulz_zimm":
        return 0.0
    key = tuple(d.params)
    if key not in _DEFICIT:
        import numpy as np
        from scipy import special as sp

        Mw, Mn = d.params
        z = Mn / (Mw - Mn)
        rd = refdist.from_params(d.family, d.params)
        kmax = int(min(rd.q(1 - 1e-12) + 10, 5e6))
        k = np.arange(1, kmax + 1, dtype=float)
        logp = (z + 1) * np.log(z) - sp.gammaln(z + 1) + (z - 1) * np.log(k) - z * np.log(Mn) - z * k / Mn
        _DEFICIT[key] = float(max(0.0, 1.0 - np.exp(logp).sum()))
    return _DEFICIT[key]


def _region(d):
    out = ["family=" + d.family]
    if d.family == "schulz_zimm":
        Mw, Mn = d.params
        z = Mn / (Mw - Mn) if Mw != Mn else float("inf")
        if z < 1:
            out.append("region:z<1")
        elif z == 1:
            out.append("region:z=1")
    if d.family == "uniform" and any(float(p) != int(p) for p in d.params):
        out.append("region:nonint_params")
    return out


def _draw_pairs(log):
    """[(u, lam or None, draw event)] for every non-forced draw."""
    out = []
    u = None
    lam = None
    n_prim = 0
    for e in log:
        if e["k"] == "dec" and e.get("in_draw"):
            u = e.get("u")
            n_prim += 1
        elif e["k"] == "poisson_lam":
            lam = e["lam"]
        elif e["k"] == "draw":
            if not e.get("forced"):
                # a draw that used several primitives (retry / rejection / fallback sampler) is not a function of one quantile
                out.append((u if n_prim <= 1 else "multi", lam, e))
            u = None
            lam = None
            n_prim = 0
        elif e["k"] == "draw_fail":
            u = None
            lam = None
            n_prim = 0
    return out


def execute(spec):
    if spec["kind"] == "perdraw":
        return _exec_perdraw(spec)
    return _exec_sweep(spec)


def _exec_perdraw(spec):
    text = spec["text"]
    try:
        ast = reader.read_molecule(text).build()
    except Exception as exc:
        return {"harness_error": f"reader failed: {exc!r}", "violations": []}
    out = genrun.run_molecule(text, dict(spec["sched"]), props=("C07",), embed=spec.get("embed", "stub"),
                              cap_mass=spec.get("cap_mass"), wall=200, ast=ast)
    if out.harness_error:
        return {"harness_error": out.harness_error, "violations": []}
    if isinstance(out.exc, genrun.WallTimeout):
        return {"harness_error": "wall timeout", "violations": []}
    viols = []
    feats = sorted(spec.get("tags", []))
    stochs = [e for e in ast.elements if hasattr(e, "dist")]
    pairs = _draw_pairs(out.world.log) if out.world else []
    compared = 0
    for i, (u, lam, ev) in enumerate(pairs):
        if i >= len(stochs):
            viols.append({"property": "C09", "invariant": "extra_draw", "msg": f"draw #{i} but only {len(stochs)} blocks", "features": feats,
                          "input": text})
            break
        d = stochs[i].dist
        if u == "multi":
            continue
        if u is None:
            # zero-width law needs no randomness
            rd = refdist.from_params(d.family, d.params)
            if not (d.family == "gauss" and d.params[1] == 0 and ev["v"] == d.params[0]):
                viols.append({"property": "C09", "invariant": "draw_without_randomness",
                              "msg": f"block {i} ({d.text()}): target {ev['v']} was produced without a random primitive", "features": feats + _region(d),
                              "input": text})
            continue
        if d.family == "poisson":
            if lam is None or abs(lam - d.params[0]) > 1e-9 * max(1, abs(d.params[0])):
                viols.append({"property": "C09", "invariant": "poisson_mean",
                              "msg": f"block {i}: declared {d.text()} but the generator was asked for a Poisson count with mean {lam}",
                              "features": feats + _region(d), "input": text})
                continue
        if ev["v"] is None:
            continue
        if _check_draw(viols, text, feats, d, u, ev["v"], f"block {i}"):
            compared += 1
    # the size of a block follows the declared law only if the block ends at the first unit whose cumulative mass exceeds the
    # drawn target (for blocks of several different units that is the only way to state "mass between the cumulative masses
    # before and after the n-th unit"): the stop-rule audit of this generation is part of the verdict
    if out.audit is not None and out.exc is None:
        for v in out.audit.violations:
            if v["property"] == "C07" and v["invariant"] in ("grew_past_target", "stopped_early", "no_unit"):
                viols.append({"property": "C09", "invariant": "block_end_outside_target_interval",
                              "msg": "a block does not end at the first unit whose cumulative mass exceeds its drawn target: " + v["msg"],
                              "features": feats, "input": text})
                break
    if out.result is not None and out.exc is None and len(pairs) + sum(1 for e in out.world.log if e["k"] == "draw" and e.get("forced")) != len(stochs):
        viols.append({"property": "C09", "invariant": "one_draw_per_block",
                      "msg": f"{len(pairs)} draws for {len(stochs)} blocks", "features": feats, "input": text})
    sig = hashlib.sha1(json.dumps([text, out.audit.sig if out.audit else None], default=str).encode()).hexdigest()
    stats = {"runs": 1, "perdraw_runs": 1, "draws_compared": compared, "decisions": out.audit.n_dec if out.audit else 0,
             "events": len(out.world.log) if out.world else 0}
    for t in spec.get("tags", []):
        if t.startswith("family:"):
            stats["tag:" + t] = 1
    if out.exc is not None:
        stats["exception:" + type(out.exc).__name__] = 1
    sample = {"kind": "perdraw", "input": text, "draws": [[u, ev["text"], ev["v"]] for (u, lam, ev) in pairs[:3]]}
    if any(u == "multi" for (u, lam, ev) in pairs):
        stats["multi_primitive_draws"] = sum(1 for (u, lam, ev) in pairs if u == "multi")
    return {"violations": viols, "stats": stats, "sig": sig, "nontrivial": compared >= 2, "sample": sample,
            "digest": out.world.digest() if out.world else None, "trace": list(out.sched.trace)}


def _n_ref(rd, u, unit_masses_cum, slack_mass, du):
    """first n with S_n > Q(u), for the quantile moved by du and the target by slack_mass"""
    uu = min(max(u + du, 1e-12), 1 - 1e-12)
    t = rd.q(uu) + slack_mass
    for n, s in enumerate(unit_masses_cum, start=1):
        if s > t:
            return n
    return len(unit_masses_cum) + 1


def _exec_sweep(spec):
    text = spec["text"]
    try:
        ast = reader.read_molecule(text).build()
    except Exception as exc:
        return {"harness_error": f"reader failed: {exc!r}", "violations": []}
    stoch_idx = [i for i, e in enumerate(ast.elements) if hasattr(e, "dist")]
    nb = len(stoch_idx)
    b = spec["block"]
    feats = sorted(spec.get("tags", []))
    viols = []
    npts = spec["npts"]
    grid = [(i + 0.5) / npts for i in range(npts)] + [1e-9, 1e-6, 1e-3, 1 - 1e-3, 1 - 1e-6]
    others = spec["others_u"]
    digests = []
    compared = 0
    stats = {"runs": 1, "sweep_runs": 1, "generations": 0, "sweep_points_compared": 0, "draw_failures_skipped": 0}
    rows = []

    from ..simrng import Scheduler

    parsed = {}

    def run_with(us):
        """generate with block quantiles us (list per block)"""
        # a scheduler whose quantile stream is `us` in draw order; choices take the first option
        class QSched(Scheduler):
            def __init__(self2):
                super().__init__(spec["seed"], choice_policy="first", draw_policy="natural", budget=8000)
                self2.qpos = 0

            def _policy_u(self2):
                # the draw seam tells which block is being drawn (a zero-width law consumes no primitive)
                k = (self2.draw_ctx or {}).get("block", 0)
                return us[min(k, len(us) - 1)]

        counter = {"n": 0}

        def ctx_fn(dist_obj):
            k = counter["n"]
            counter["n"] += 1
            return {"block": k, "u_cap": None}

        # every generation of the sweep uses the same parsed object ("over repeated generation")
        o = genrun.run_molecule(text, None, props=("C07",), embed="stub", cap_mass=None, wall=200, ast=ast, sched_obj=QSched(),
                                draw_ctx_fn=ctx_fn, reuse_obj=parsed.get("obj"))
        if o.mol_obj is not None:
            parsed["obj"] = o.mol_obj
        return o

    unit_elem = ast.elements[stoch_idx[b]]
    rd = refdist.from_params(unit_elem.dist.family, unit_elem.dist.params)
    region = _region(unit_elem.dist)
    m_unit = unit_elem.repeats[0].mass
    prev_n = None
    for u in sorted(grid):
        us = list(others)
        us[b] = u
        out = run_with(us)
        stats["generations"] += 1
        if out.harness_error:
            return {"harness_error": out.harness_error, "violations": []}
        if out.exc is not None or out.result is None:
            stats["draw_failures_skipped"] += 1
            continue
        digests.append(out.world.digest())
        recs = {r["ei"]: r for r in getattr(out.audit, "stop_records", [])}
        r = recs.get(stoch_idx[b])
        if r is None:
            continue
        n_obs = len(r["added"])
        cum = [m_unit * k for k in range(1, n_obs + 400)]
        n_lo = _n_ref(rd, u, cum, -1.0, -DELTA)
        n_hi = _n_ref(rd, u, cum, +1.0, +DELTA + _sz_deficit(unit_elem.dist))
        rows.append((u, n_obs))
        stats["sweep_points_compared"] += 1
        compared += 1
        if not (n_lo <= n_obs <= n_hi):
            viols.append({"property": "C09", "invariant": "block_size_vs_declared_law",
                          "msg": f"block {b} ({unit_elem.dist.text()}, unit mass {m_unit:.3f}): quantile {u!r} produced {n_obs} units; "
                                 f"the documented law stops after {n_lo}..{n_hi} units (reference target {rd.q(u):.6g})",
                          "features": feats + region, "input": text})
            if len(viols) > 3:
                break
        if prev_n is not None and n_obs < prev_n:
            viols.append({"property": "C09", "invariant": "block_size_not_monotone_in_quantile",
                          "msg": f"block {b}: n(u) decreased from {prev_n} to {n_obs} at u={u!r}", "features": feats + region, "input": text})
        prev_n = n_obs
    # independence of blocks: the swept block's size must not depend on the other blocks' quantiles
    if spec.get("grid2d") and nb >= 2 and not viols:
        ob = (b + 1) % nb
        for u in (0.1, 0.5, 0.9):
            t_ref = rd.q(u)
            if abs(t_ref / m_unit - round(t_ref / m_unit)) < 1e-6:
                # exact tie between the target and a cumulative mass: the outcome legitimately depends on float rounding of
                # (mass - start mass), i.e. on the size of the earlier blocks; a measure-zero event, not compared
                u = u + 0.013
                t_ref = rd.q(u)
                if abs(t_ref / m_unit - round(t_ref / m_unit)) < 1e-6:
                    continue  # zero-width law sitting exactly on a cumulative mass
            sizes = set()
            for v in (0.05, 0.5, 0.95):
                us = list(others)
                us[b] = u
                us[ob] = v
                out = run_with(us)
                stats["generations"] += 1
                if out.exc is not None or out.result is None:
                    continue
                recs = {r["ei"]: r for r in getattr(out.audit, "stop_records", [])}
                if stoch_idx[b] in recs:
                    sizes.add(len(recs[stoch_idx[b]]["added"]))
            if len(sizes) > 1:
                viols.append({"property": "C09", "invariant": "blocks_not_independent",
                              "msg": f"size of block {b} at quantile {u} depends on the quantile of block {ob}: {sorted(sizes)}",
                              "features": feats + region, "input": text})
    sig = hashlib.sha1(json.dumps([text, b, npts]).encode()).hexdigest()
    for t in spec.get("tags", []):
        if t.startswith("family:"):
            stats["tag:" + t] = stats.get("tag:" + t, 0) + 1
    sample = {"kind": "sweep", "input": text, "block": b, "n_of_u": rows[:: max(1, len(rows) // 8)]}
    dg = hashlib.sha256("".join(digests).encode()).hexdigest()
    return {"violations": viols, "stats": stats, "sig": sig, "nontrivial": compared >= 20, "sample": sample, "digest": dg, "trace": None}


def shrink_candidates(spec):
    if spec["kind"] == "perdraw":
        yield from gc.shrink_candidates(spec)
        return
    if spec["npts"] > 6:
        c = json.loads(json.dumps(spec))
        c["npts"] = max(6, spec["npts"] // 2)
        yield c
    for t in gc.simpler_texts(spec["text"]):
        c = json.loads(json.dumps(spec))
        c["text"] = t
        yield c
