"""Shared workload / execution for the generation properties C04..C08."""
import hashlib
import json
import random

from .. import archetypes, genrun, reader, wellposed
from ..simrng import BudgetExceeded
from ..seams import DrawDiverges
from ..genrun import WallTimeout

COMPONENTS = {
    "real": ["gbigsmiles parser", "gbigsmiles generator (Molecule/Stochastic/SmilesToken.generate, MolGen.attach_other)",
             "distribution code + scipy (unless a run forces the drawn value)", "RDKit", "numpy", "networkx"],
    "stub": ["RDKit 3-D embedding / UFF optimisation replaced by a zero conformer in ~90 % of runs (coordinates are in no property)",
             "numpy bit generator replaced by the SimRng scheduler (that is the simulator)"],
}
ASSUMPTIONS_COMMON = [
    "trusted: RDKit SMILES parser / sanitisation / masses, numpy argument validation of Generator.choice, scipy.special",
    "the reference reader (gbsim/reader.py) and model (gbsim/model.py) are my reading of README + property statements",
    "seams MolGen.__init__, MolGen.attach_other, Distribution.draw_mw and the rng argument are the coupling to the code",
    "inputs bounded: <=26 tokens per molecule, target mass capped (~40 units per block), tails to 1e-9",
]

CHOICE_POLICIES = ["faithful", "uniform_support", "rare", "sticky", "alternate", "mix", "first", "last"]
DRAW_POLICIES = ["natural", "natural", "tails", "low", "mid", "high"]


def make_spec(run_seed, tier, prop, choice_weights=None, forced_prob=0.0, branchy=True, safe_dist=False, archetype=None,
              corpus_prob=0.08, family=None, allow_illposed=True):
    rnd = random.Random(run_seed)
    tags = set()
    if rnd.random() < corpus_prob:
        text = rnd.choice(archetypes.CORPUS)
        tags.add("corpus")
    else:
        cfg = {"branchy": branchy, "safe_dist": safe_dist, "allow_illposed": allow_illposed}
        if family:
            cfg["family"] = family
        text, tags = archetypes.gen_molecule(rnd, cfg, archetype)
    # related inputs (gbsim/siblings.py): in some runs the audited input itself is a respelling (tokens written in another atom
    # order: descriptors in nested branches, after ring closures, ...); in some runs a related input is generated first in the
    # same process, unaudited, so that state keyed by part of a string could collide (warm-up)
    rs = random.Random(run_seed ^ 0x51B1)
    if "corpus" not in tags and rs.random() < 0.12:
        from .. import siblings

        alt = siblings.respell(rs, text)
        if alt is not None:
            text = alt
            tags = set(tags) | {"respelled"}
    rsp = random.Random(run_seed ^ 0x5BAC)
    if "corpus" not in tags and rsp.random() < 0.15:
        from .. import siblings

        text = siblings.respace(rsp, text)
        tags = set(tags) | {"respaced"}
    warmup = None
    if rs.random() < 0.15:
        from .. import siblings

        kind = rs.choice(["respell", "respell", "retune", "other"])
        if kind == "respell":
            warmup = siblings.respell(rs, text)
        elif kind == "retune":
            warmup = siblings.retune(rs, text)
        else:
            warmup = archetypes.gen_molecule(rs, {"branchy": True, "safe_dist": True, "allow_illposed": False})[0]
    pols = CHOICE_POLICIES
    w = choice_weights or [3, 3, 2, 2, 1, 3, 1, 1]
    cp = rnd.choices(pols, weights=w)[0]
    dp = rnd.choice(DRAW_POLICIES)
    spec = {
        "kind": "gen", "prop": prop, "text": text, "tags": sorted(tags),
        "sched": {"seed": rnd.randrange(1 << 48), "choice_policy": cp, "draw_policy": dp, "script": None, "budget": 6000},
        "embed": "real" if rnd.random() < 0.08 else "stub",
        "cap_mass": rnd.choice([300, 600, 1200]),
        "forced": None,
    }
    if warmup is not None:
        spec["warmup"] = {"text": warmup, "seed": rs.randrange(1000)}
    if text.startswith("{[]") and text.count("{") == 1 and text.rstrip().endswith("|") and "[]}" in text and rnd.random() < 0.35:
        spec["entry"] = "stochastic"  # the same string through the user-facing Stochastic class
    if rs.random() < 0.06:
        # the audited generation follows one that was aborted half-way on the same parsed object: the caller's generator
        # raises (RuntimeError or KeyboardInterrupt) at its k-th call
        spec["abort_first"] = {"at": rs.choice([0, 1, 2, 3, 5, 8, 13, 21, 34]), "how": rs.choice(["raise", "interrupt", "value"]), "seed": rs.randrange(1 << 40)}
    if rs.random() < 0.12:
        spec["again"] = rs.randrange(1 << 40)  # a second, fully audited generation from the same parsed object
    # (a left terminal with a weight or list of its own becomes the right terminal of the mirror: mirrored more often)
    if "entry" not in spec and rs.random() < (0.4 if any(t.startswith("left_terminal") for t in tags) else 0.05):
        spec["entry"] = "mirror"  # generate from Molecule.gen_mirror(), audit against the mirrored description
        spec["mirror_pre"] = rs.choice([None, 1, 2, 3, 4])  # the original generated once before the mirror is taken
    if "entry" not in spec and rs.random() < 0.07:
        spec["entry"] = "staged"  # element by element through the copies handed out by Molecule.elements (genrun.py)
    if "hub" in tags:
        spec["cap_mass"] = min(spec["cap_mass"], 400)  # branched growth caps every open branch after every step: O(n^2) attaches
    if rnd.random() < forced_prob:
        mode = rnd.choice(["tie", "tie", "tie_minus", "tie_plus", "values"])
        if mode == "values":
            spec["forced"] = {"mode": "values", "values": [rnd.choice([-50.0, 0.0, 1.0, 7.0, 15.0, 60.0, 200.0])]}
        else:
            spec["forced"] = {"mode": mode, "which": rnd.randrange(0, 6)}
            if mode == "tie" and rs.random() < 0.6:
                # an exact tie that every way of summing masses sees as a tie: the first unit of a block that starts from zero
                # heavy-atom mass (prefix [H]); '>' continues there, '>=' would stop
                import re as _re

                m = _re.match(r"^([^{]+)\{", spec["text"])
                if m and not any(x in m.group(1) for x in ("[<", "[>", "[$")) and "entry" not in spec:
                    spec["text"] = "[H]" + spec["text"][m.end(1):]
                    spec["forced"]["which"] = 0
                    spec["tags"] = sorted(set(spec["tags"]) | {"zero_mass_start"})
                    spec.pop("warmup", None)
    return spec


def _exc_features(out):
    feats = []
    if out.exc is not None:
        feats.append("exc=" + type(out.exc).__name__)
        msg = str(out.exc)
        if "updating stopped" in msg:
            feats.append("msg=updating stopped")
    fams = set()
    for e in (out.world.log if out.world else []):
        if e["k"] in ("draw_fail",):
            fams.add(e["text"].split("(")[0].strip("|"))
            feats.append("draw_fail")
    if isinstance(out.exc, DrawDiverges):
        feats.append("draw_diverges")
        for e in reversed(out.world.log):
            pass
    for f in sorted(fams):
        feats.append("family=" + f)
    return feats


def _warmup(wu):
    """Generate a related input once, unaudited, in this process before the audited run: whatever it leaves behind in the
    library (module-level caches, class attributes) is the history the audited generation has to be independent of."""
    import numpy as np

    from .. import boot
    from ..seams import World
    from ..simrng import Scheduler, SimAbort

    g = boot.load()
    w = World(Scheduler(1), embed="stub")
    try:
        with w:
            g.Molecule(wu["text"]).generate(rng=np.random.default_rng(wu["seed"]))
    except SimAbort:
        pass
    except Exception:
        pass


def execute(spec, props=None):
    props = tuple(props or [spec["prop"]])
    text = spec["text"]
    sched = dict(spec["sched"])
    forced = spec.get("forced")
    forced_values = None
    stats = {}
    resolved = None
    try:
        ast = reader.read_molecule(text).build()
    except Exception as exc:
        return {"harness_error": f"reader failed on workload text {text!r}: {exc!r}", "violations": []}
    if spec.get("entry") == "mirror":
        # generation from Molecule.gen_mirror(): judged against the mirrored description (elements reversed, terminals swapped)
        from ..notation import mirror_ast

        ast_m = mirror_ast(ast)
        if len(ast.elements) >= 2 and wellposed.analyse(ast_m)[0]:
            ast = ast_m
            stats["entry_mirror"] = 1
        else:
            spec = dict(spec)
            spec["entry"] = "molecule"
    well, why = wellposed.analyse(ast)
    if not well:
        stats["illposed_input"] = 1
        if "C06" in props:
            # outside C06's quantifier (well-posed molecules): counted, not run
            return {"violations": [], "stats": {"runs": 1, "illposed_input_skipped": 1}, "sig": None, "nontrivial": False,
                    "sample": {"input": text, "skipped": why}, "digest": None, "trace": []}
    if spec.get("warmup"):
        _warmup(spec["warmup"])
        stats["warmup_generations"] = 1
    if forced:
        if forced["mode"] == "values":
            forced_values = list(forced["values"])
        else:
            # two passes: the first records the masses a_k - a_0 of the natural run, the second forces the tie
            out1 = genrun.run_molecule(text, sched, props=(), embed="stub", cap_mass=spec.get("cap_mass"), wall=150, ast=ast,
                                       entry=spec.get("entry", "molecule"), pre_generate_seed=spec.get("mirror_pre"))
            if out1.harness_error:
                return {"harness_error": out1.harness_error, "violations": []}
            recs = getattr(out1.audit, "stop_records", None)
            if out1.audit is not None and out1.result is not None:
                out1.audit.props = {"C07"}
                out1.audit.violations = []
                out1.audit.audit_stop_rule(out1.result, {u for (u, _, _) in out1.result._gb_inst})
                recs = out1.audit.stop_records
            if recs:
                vals = []
                for r in recs:
                    k = min(forced["which"], len(r["added"]) - 1)
                    v = r["added"][k]
                    if forced["mode"] == "tie_minus":
                        v = v - max(1e-9, abs(v) * 1e-12)
                    elif forced["mode"] == "tie_plus":
                        v = v + max(1e-9, abs(v) * 1e-12)
                    vals.append(v)
                forced_values = vals
                sched["script"] = list(out1.sched.trace)
                stats["two_pass_forced"] = 1
            else:
                forced_values = None
        if forced_values is not None:
            resolved = json.loads(json.dumps(spec))
            resolved["forced"] = {"mode": "values", "values": forced_values}
            resolved["sched"]["script"] = sched.get("script")
    reuse = None
    if spec.get("abort_first") and spec.get("entry", "molecule") == "molecule":
        ab = spec["abort_first"]
        sk0 = {"seed": ab["seed"], "choice_policy": "uniform_support", "draw_policy": "natural", "script": None, "budget": 6000,
               "faults": {ab["at"]: ab["how"]}}
        out0 = genrun.run_molecule(text, sk0, props=(), embed="stub", cap_mass=spec.get("cap_mass"), wall=150, ast=ast)
        if out0.harness_error:
            return {"harness_error": out0.harness_error, "violations": []}
        if out0.sched is not None and out0.sched.fired:
            stats["fault:rng_" + ab["how"]] = 1
            reuse = out0.mol_obj
        stats["aborted_first_generations"] = 1
    out = genrun.run_molecule(text, sched, props=props, embed=spec.get("embed", "stub"), forced_draws=forced_values,
                              cap_mass=spec.get("cap_mass"), wall=200, ast=ast, entry=spec.get("entry", "molecule"), reuse_obj=reuse,
                              pre_generate_seed=spec.get("mirror_pre"))
    if out.harness_error:
        return {"harness_error": out.harness_error, "violations": []}
    if isinstance(out.exc, WallTimeout):
        return {"harness_error": f"wall-clock watchdog fired on {text}", "violations": []}
    violations = list(out.violations)
    if spec.get("again") is not None and out.mol_obj is not None and spec.get("entry", "molecule") == "molecule" and not violations:
        # the parsed object is a sampler: a second generation from it is audited exactly like the first one
        sched2 = dict(sched)
        sched2["seed"] = spec["again"]
        sched2["script"] = None
        out2 = genrun.run_molecule(text, sched2, props=props, embed="stub", cap_mass=spec.get("cap_mass"), wall=200, ast=ast,
                                   reuse_obj=out.mol_obj)
        stats["second_generations"] = 1
        if out2.harness_error:
            return {"harness_error": out2.harness_error, "violations": []}
        if not isinstance(out2.exc, WallTimeout):
            for v in out2.violations:
                v["msg"] = "[second generation from the same parsed object] " + v["msg"]
                violations.append(v)
            if out2.exc is not None and out.exc is None and "C06" in props and out2.phase != "parse":
                inv = "no_termination_within_budget" if isinstance(out2.exc, BudgetExceeded) else ("target_draw_failed" if out2.draw_failed else "generation_raised")
                violations.append({"property": "C06", "invariant": inv, "seq": None,
                                   "msg": f"[second generation from the same parsed object] generation of a well-posed molecule did not complete: {out2.exc!r} on {text!r}"})
                if out2.draw_failed or isinstance(out2.exc, DrawDiverges):
                    out = out2  # the features of the failed draw identify the known findings
    feats = sorted(set(spec.get("tags", [])) | set(_exc_features(out)))
    if any(getattr(t, "h_shift", False) for t in ast.residues()):
        feats.append("explicit_H_before_attachment_atom")
    if out.phase == "parse" and out.exc is not None:
        if "C06" in props:
            violations.append({"property": "C06", "invariant": "workload_rejected_by_parser",
                               "msg": f"parser rejected a well-formed workload string {text!r}: {out.exc!r}", "seq": None})
    elif out.exc is not None and "C06" in props:
        if isinstance(out.exc, BudgetExceeded):
            inv = "no_termination_within_budget"
        elif out.draw_failed:
            inv = "target_draw_failed"
        else:
            inv = "generation_raised"
        violations.append({"property": "C06", "invariant": inv,
                           "msg": f"generation of a well-posed molecule did not complete: {out.exc!r} on {text!r}", "seq": None})
    for v in violations:
        v["features"] = feats
        v["input"] = text
    audit = out.audit
    sig_src = json.dumps([text, audit.sig if audit else None], default=str)
    sig = hashlib.sha1(sig_src.encode()).hexdigest()
    n_multi = audit.n_dec_multi if audit else 0
    stats.update({
        "runs": 1,
        "decisions": audit.n_dec if audit else 0,
        "multi_option_decisions": n_multi,
        "attach_steps": len(audit.atts) if audit else 0,
        "events": len(out.world.log) if out.world else 0,
        "residues_in_products": len(getattr(out.result, "_gb_inst", [])) if out.result is not None else 0,
        "draws": len(audit.draws) if audit else 0,
        "policy:" + spec["sched"]["choice_policy"]: 1,
        "drawpolicy:" + spec["sched"]["draw_policy"]: 1,
        "embed:" + spec.get("embed", "stub"): 1,
        "draw:" + ("forced" if forced_values is not None else "real"): 1,
        "entry:" + spec.get("entry", "molecule"): 1,
    })
    for t in spec.get("tags", []):
        if t.startswith(("arch:", "family:", "start:", "end:", "weights:")) or t in ("corpus", "hub", "connector", "respelled", "respaced"):
            stats["tag:" + t] = stats.get("tag:" + t, 0) + 1
    if out.exc is not None:
        stats["exception:" + type(out.exc).__name__] = 1
    if audit:
        for k, v in audit.probes.items():
            stats["probe:" + k] = v
    if out.sched.script is not None:
        stats["script_fallbacks"] = out.sched.script_fallbacks
    sample = {
        "input": text, "choice_policy": spec["sched"]["choice_policy"], "draw_policy": spec["sched"]["draw_policy"],
        "forced": forced_values, "first_decisions": [list(s) for s in (audit.sig[:10] if audit else [])],
        "product": (out.smiles or "")[:100], "exception": None if out.exc is None else repr(out.exc)[:120],
    }
    return {
        "violations": violations, "stats": stats, "sig": sig, "nontrivial": n_multi >= 3, "sample": sample,
        "digest": out.world.digest() if out.world else None, "trace": list(out.sched.trace),
        "resolved_spec": resolved,
    }


def shrink_candidates(spec):
    """Smaller variants of a failing spec: shorter / simpler outcome scripts, stub embedding, simpler policies."""
    spec = json.loads(json.dumps(spec))
    script = spec["sched"].get("script")
    if spec.get("embed") != "stub":
        c = json.loads(json.dumps(spec))
        c["embed"] = "stub"
        yield c
    if script:
        n = len(script)
        # truncate (the scheduler falls back to 'first option / median quantile' when the script ends)
        for cut in (0, n // 8, n // 4, n // 2, (3 * n) // 4, n - 1):
            if 0 <= cut < n:
                c = json.loads(json.dumps(spec))
                c["sched"]["script"] = script[:cut]
                yield c
        # simplify entries
        for i in range(min(n, 60)):
            v = script[i]
            if isinstance(v, int) and v != 0:
                c = json.loads(json.dumps(spec))
                c["sched"]["script"][i] = 0
                yield c
            if isinstance(v, float) and v > 0.05:
                c = json.loads(json.dumps(spec))
                c["sched"]["script"][i] = round(v / 2, 6)
                yield c
    # input level: try the corpus of simpler texts derived from this one
    for t in simpler_texts(spec["text"]):
        c = json.loads(json.dumps(spec))
        c["text"] = t
        yield c


def print_mol(ast):
    """print an AST without using the raw text (used by the shrinker)"""
    from ..notation import Stoch

    out = ""
    for e in ast.elements:
        if isinstance(e, Stoch):
            out += "{" + e.left.text(False) + ", ".join(t.text() for t in e.repeats)
            if e.ends:
                out += "; " + ", ".join(t.text() for t in e.ends)
            out += e.right.text(False) + "}" + e.dist.text()
        else:
            out += e.text()
    if ast.mixture is not None:
        kind, x = ast.mixture
        out += (".|%r|" % x) if kind == "abs" else (".|%r%%|" % x)
    return out


def simpler_texts(text):
    """Input-level simplifications that keep the string inside the workload grammar: drop weights, shrink distributions,
    drop a repeat unit / end group / block, replace a token by the simplest one of its kind."""
    import copy
    import re

    from ..notation import Stoch

    out = []
    # drop weights
    t = re.sub(r"\|[0-9eE.+\- ]+\|\]", "]", text)
    if t != text:
        out.append(t)

    # shrink distribution means
    def half(m):
        nums = [float(x) for x in m.group(2).split(",")]
        if m.group(1) in ("flory_schulz",):
            return m.group(0)
        nums = [round(x / 2, 3) if x > 20 else x for x in nums]
        if m.group(1) == "uniform":
            nums = [int(x) for x in nums]
            if nums[1] <= nums[0]:
                return m.group(0)
        if m.group(1) == "schulz_zimm" and nums[0] <= nums[1]:
            return m.group(0)
        return "|%s(%s)|" % (m.group(1), ", ".join(str(x) for x in nums))

    t = re.sub(r"\|([a-z_]+)\(([^)]*)\)\|", half, text)
    if t != text:
        out.append(t)
    # structural simplifications on the AST (only when no list weights are present: lists are indexed by position)
    try:
        ast = reader.read_molecule(text)
        has_lists = any(d.trans is not None for tok in ast.residues() for d in tok.descs) or any(
            e.left.trans is not None for e in ast.elements if isinstance(e, Stoch))
        if not has_lists:
            for ei, e in enumerate(ast.elements):
                if isinstance(e, Stoch):
                    if len(e.repeats) > 1:
                        for k in range(len(e.repeats)):
                            c = copy.deepcopy(ast)
                            c.raw = None
                            del c.elements[ei].repeats[k]
                            out.append(print_mol(c))
                    if len(e.ends) > 1:
                        for k in range(len(e.ends)):
                            c = copy.deepcopy(ast)
                            c.raw = None
                            del c.elements[ei].ends[k]
                            out.append(print_mol(c))
                    for k, tok in enumerate(e.repeats):
                        if len(tok.descs) == 2 and tok.template != "{0}CC{1}":
                            c = copy.deepcopy(ast)
                            c.raw = None
                            c.elements[ei].repeats[k].template = "{0}CC{1}"
                            out.append(print_mol(c))
                    for k, tok in enumerate(e.ends):
                        if tok.template not in ("{0}C", "{0}[H]"):
                            c = copy.deepcopy(ast)
                            c.raw = None
                            c.elements[ei].ends[k].template = "{0}C"
                            out.append(print_mol(c))
            # drop a whole block (and a connector next to it) when the neighbours still fit
            stoch = [i for i, e in enumerate(ast.elements) if isinstance(e, Stoch)]
            if len(stoch) > 1:
                for i in stoch:
                    c = copy.deepcopy(ast)
                    c.raw = None
                    del c.elements[i]
                    # two plain tokens in a row are not in the grammar: drop an implicit connector too
                    els = c.elements
                    j = 1
                    while j < len(els):
                        if not isinstance(els[j], Stoch) and not isinstance(els[j - 1], Stoch):
                            del els[j]
                        else:
                            j += 1
                    out.append(print_mol(c))
    except Exception:
        pass
    good = []
    seen = set()
    for t in out:
        if t in seen or t == text:
            continue
        seen.add(t)
        try:
            reader.read_molecule(t).build()
            good.append(t)
        except Exception:
            pass
    return good
