"""C08 - every random decision follows the weights written in the notation."""
from . import gencommon as gc

LEVEL = "exploration"
TECHNIQUE = ("deterministic simulation: every rng.choice is a scheduled event whose probability vector is compared with the "
             "reference model's law for that decision; outcomes are chosen independently of their probability")
RULE = ("each run = one input x one seeded schedule; every decision (kept or discarded work) must equal a decision template the "
        "model derives from the AST for the live state (open pick, partner pick, list transition, start, reservation, capping, "
        "hand-over); distinct = hash of (input, decision sequence); non-trivial = at least 3 multi-option decisions")
ASSUMPTIONS = gc.ASSUMPTIONS_COMMON + [
    "a decision is identified by its content (option count, probability vector, probability of the option taken), not by its "
    "position in the call sequence; option order may be permuted (probe permuted_option_order stays 0 on this tree)",
    "zero-probability options are never returned by the scheduler (numpy's contract), so 'never taken' is checked as p==0 in the law",
]
COMPONENTS = gc.COMPONENTS
PROPS = ("C08",)


def plan(tier):
    return 2400 if tier == "quick" else 40000


def spec_from_seed(run_seed, tier):
    return gc.make_spec(run_seed, tier, "C08", choice_weights=[3, 3, 3, 1, 1, 3, 1, 1], forced_prob=0.1)


def execute(spec):
    return gc.execute(spec, PROPS)


shrink_candidates = gc.shrink_candidates
