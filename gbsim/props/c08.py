"""C08 - every random decision follows the weights written in the notation."""
from . import gencommon as gc

LEVEL = "exploration"
TECHNIQUE = ("deterministic simulation: every rng.choice is a scheduled event whose probability vector is compared with the "
             "reference model's law for that decision; outcomes are chosen independently of their probability")
RULE = ("92 % of runs: one input x one seeded schedule; every decision (kept or discarded work) must equal a decision template the "
        "model derives from the AST for the live state (open pick, partner pick, list transition, start, reservation, capping, "
        "hand-over); distinct = hash of (input, decision sequence); non-trivial = at least 3 multi-option decisions.  8 % of runs: a bounded instance (targets forced to 0.5 / 1.5 units) "
        "whose every choice sequence is enumerated depth-first through the real code (<= 800 paths, else counted as truncated) and the "
        "summed path probabilities per product compared with the exact law of an independent reference generator")
ASSUMPTIONS = gc.ASSUMPTIONS_COMMON + [
    "a decision is identified by its content (option count, probability vector, probability of the option taken), not by its "
    "position in the call sequence; option order may be permuted (probe permuted_option_order stays 0 on this tree)",
    "zero-probability options are never returned by the scheduler (numpy's contract), so 'never taken' is checked as p==0 in the law",
]
COMPONENTS = gc.COMPONENTS
PROPS = ("C08",)


def plan(tier):
    return 2400 if tier == "quick" else 40000


ENUM_SHARE = 0.08
MAX_PATHS = 800


def spec_from_seed(run_seed, tier):
    import random

    rnd = random.Random(run_seed ^ 0x5EED)
    if rnd.random() < ENUM_SHARE:
        # bounded instance: every choice sequence of the real code is enumerated (systematic complement, see module doc)
        spec = gc.make_spec(run_seed, tier, "C08", forced_prob=0.0, allow_illposed=False, corpus_prob=0.0,
                            archetype=rnd.choice(["linear_directed", "linear_directed", "undirected", "step_growth", "alternating_ids",
                                                  "multiblock", "end_transition", "branched_lists", "star"]))
        spec["kind"] = "enumerate"
        spec["target_units"] = rnd.choice([0.53, 1.57, 1.57, 2.61])  # never a multiple of a unit mass: ties depend on float rounding
        spec["embed"] = "stub"
        return spec
    return gc.make_spec(run_seed, tier, "C08", choice_weights=[3, 3, 3, 1, 1, 3, 1, 1], forced_prob=0.1)


def execute(spec):
    if spec.get("kind") == "enumerate":
        return execute_enumeration(spec)
    return gc.execute(spec, PROPS)


def execute_enumeration(spec):
    """All choice sequences of the real generator for a bounded instance (targets forced to <= 2 units) against the exact
    law of the independent reference generator (refgen.py).  Black-box: uses only rng.choice's probability vectors and the
    returned SMILES, not the attach / instance seams."""
    import hashlib
    import json

    from .. import genrun, reader, refgen, wellposed
    from ..notation import Stoch

    text = spec["text"]
    try:
        ast = reader.read_molecule(text).build()
    except Exception as exc:
        return {"harness_error": f"reader failed: {exc!r}", "violations": []}
    stats = {"runs": 1, "enumeration_runs": 1, "paths": 0}
    ok, why = wellposed.analyse(ast)
    if not ok:
        stats["enumeration_skipped_illposed"] = 1
        return {"violations": [], "stats": stats, "sig": None, "nontrivial": False, "sample": {"input": text, "skipped": why}, "digest": None, "trace": None}
    targets = []
    for e in ast.elements:
        if isinstance(e, Stoch):
            m = min(t.mass for t in e.repeats)
            targets.append(spec["target_units"] * max(m, 1.0) + 0.0137)
    try:
        law = refgen.exact_law(ast, targets)
    except (refgen.Stuck, OverflowError, RecursionError) as exc:
        stats["enumeration_skipped_reference"] = 1
        return {"violations": [], "stats": stats, "sig": None, "nontrivial": False, "sample": {"input": text, "skipped": repr(exc)}, "digest": None, "trace": None}
    # depth-first over the decision tree of the real code
    real = {}
    prefix = []
    digests = []
    n_paths = 0
    complete = True
    while True:
        sched = dict(spec["sched"])
        sched.update({"choice_policy": "first", "draw_policy": "natural", "script": list(prefix), "budget": 4000})
        out = genrun.run_molecule(text, sched, props=(), embed="stub", forced_draws=list(targets), wall=150, ast=ast)
        if out.harness_error:
            return {"harness_error": out.harness_error, "violations": []}
        n_paths += 1
        decs = [e for e in out.world.log if e["k"] == "dec" and e.get("kind") == "choice" and not e.get("in_draw")]
        prob = 1.0
        path = []
        for d in decs:
            support = [i for i, x in enumerate(d["p"]) if x > 0]
            path.append((support, d["i"]))
            prob *= d["p"][d["i"]]
        key = "exception:" + type(out.exc).__name__
        if out.exc is None and out.smiles:
            try:
                key = refgen.flat_smiles(out.result.mol)
            except Exception:
                key = out.smiles
        real[key] = real.get(key, 0.0) + prob
        digests.append(out.world.digest())
        # next path: advance the last decision that still has an untried option
        nxt = None
        for j in range(len(path) - 1, -1, -1):
            support, chosen = path[j]
            r = support.index(chosen)
            if r + 1 < len(support):
                nxt = [c for (_, c) in path[:j]] + [support[r + 1]]
                break
        if nxt is None:
            break
        if n_paths >= MAX_PATHS:
            complete = False
            break
        prefix = nxt
    stats["paths"] = n_paths
    viols = []
    feats = sorted(spec.get("tags", []))
    if complete:
        stats["enumerations_complete"] = 1
        keys = set(real) | set(law)
        total = sum(real.values())
        if abs(total - 1.0) > 1e-9:
            viols.append({"property": "C08", "invariant": "path_probabilities_do_not_sum_to_one",
                          "msg": f"the probabilities handed to the generator along all {n_paths} choice sequences sum to {total!r}", "features": feats, "input": text})
        for k in sorted(keys):
            a, b = real.get(k, 0.0), law.get(k, 0.0)
            if abs(a - b) > 1e-9 + 1e-9 * max(a, b):
                viols.append({"property": "C08", "invariant": "exact_molecule_probability",
                              "msg": f"targets {targets}: molecule {k!r} is produced with probability {a!r} over all choice sequences; the notation gives {b!r}",
                              "features": feats, "input": text})
                break
    else:
        stats["enumerations_truncated"] = 1
    sig = hashlib.sha1(json.dumps([text, targets, "enum"]).encode()).hexdigest()
    sample = {"kind": "enumerate", "input": text, "targets": targets, "paths": n_paths, "complete": complete, "products": len(real)}
    dg = hashlib.sha256("".join(digests).encode()).hexdigest()
    return {"violations": viols, "stats": stats, "sig": sig, "nontrivial": complete and n_paths >= 4, "sample": sample, "digest": dg, "trace": None}


def shrink_candidates(spec):
    if spec.get("kind") == "enumerate":
        import json

        for t in gc.simpler_texts(spec["text"]):
            c = json.loads(json.dumps(spec))
            c["text"] = t
            yield c
        return
    yield from gc.shrink_candidates(spec)
