"""Process restart as a fault: the same string and the same generator seed in a fresh interpreter.

Only the 'durable' state survives a restart: the text of the molecule and the integer seed.  Everything the interpreter decides
anew -- the string hash seed (iteration order of sets / dicts of str), object addresses, import order, caches -- is the
nondeterminism under test.  The child is started with a PYTHONHASHSEED chosen by the run's spec, so it is itself one exactly
repeatable execution; the parent (all checks run under PYTHONHASHSEED=0) compares what it generated itself with what the
restarted processes generate.
"""
import json
import os
import subprocess
import sys

from . import boot

ROOT = os.path.dirname(os.path.dirname(os.path.abspath(__file__)))
_CODE = "import sys; sys.path.insert(0, %r); from gbsim import freshproc; freshproc.child_main()" % ROOT


def _job_atomgraph(g, job):
    import numpy as np
    from rdkit import Chem

    mol = g.Molecule(job["text"])
    sg = mol.gen_stochastic_atom_graph(True)
    out = []
    for seed in job["seeds"]:
        ag = g.AtomGraph(sg, rng=np.random.default_rng(seed))
        ag.generate()
        out.append(Chem.MolToSmiles(ag.to_mol()))
    return out


def _job_molecule(g, job):
    import numpy as np

    mol = g.Molecule(job["text"])
    out = []
    for seed in job["seeds"]:
        r = mol.generate(rng=np.random.default_rng(seed))
        out.append([r.smiles, round(float(r.weight), 6)])
    return out


def _job_system(g, job):
    import numpy as np

    args = [job["text"]] + ([job["system_molweight"]] if job.get("system_molweight") else [])
    out = []
    for seed in job["seeds"]:
        s = g.System(*args)
        r = s.generate(rng=np.random.default_rng(seed))
        out.append([r.smiles, round(float(r.weight), 6)])
    return out


def _job_typing(g, job):
    from .props import c20

    return [json.loads(json.dumps(c20.baseline_typing({"text": job["text"], "seed": seed}))) for seed in job["seeds"]]


JOBS = {"atomgraph": _job_atomgraph, "molecule": _job_molecule, "system": _job_system, "typing": _job_typing}


def run_job(g, job):
    """the job itself (used in the parent as well, so that both sides run the very same calls)"""
    from .seams import DrawDiverges, World
    from .simrng import BudgetExceeded, Scheduler, SimAbort

    if job["job"] == "typing":
        return {"ok": _job_typing(g, job)}  # (brings its own world: simulated file layer)
    w = World(Scheduler(1), embed="stub")
    with w:
        try:
            return {"ok": JOBS[job["job"]](g, job)}
        except (BudgetExceeded, DrawDiverges) as exc:
            return {"diverged": type(exc).__name__}
        except SimAbort:
            raise
        except Exception as exc:
            return {"exception": type(exc).__name__}


def child_main():
    job = json.loads(sys.stdin.read())
    g = boot.load()
    res = run_job(g, job)
    sys.stdout.write("\nGBSIM-CHILD " + json.dumps(res) + "\n")


def restart(job, hashseeds, timeout=300):
    """run `job` in one fresh interpreter per hash seed (started together); returns {hashseed: result or {'child_failed': ..}}"""
    procs = []
    for hs in hashseeds:
        env = dict(os.environ)
        env["PYTHONHASHSEED"] = str(hs)
        env["GBSIM_NO_REEXEC"] = "1"
        env["GBSIM_REPO"] = boot.REPO
        p = subprocess.Popen([sys.executable, "-c", _CODE], stdin=subprocess.PIPE, stdout=subprocess.PIPE, stderr=subprocess.PIPE, text=True, env=env)
        procs.append((hs, p))
    out = {}
    payload = json.dumps(job)
    for hs, p in procs:
        try:
            so, se = p.communicate(payload, timeout=timeout)
        except subprocess.TimeoutExpired:
            p.kill()
            p.communicate()
            out[hs] = {"child_failed": "timeout"}
            continue
        line = [l for l in so.splitlines() if l.startswith("GBSIM-CHILD ")]
        out[hs] = json.loads(line[-1][len("GBSIM-CHILD "):]) if line else {"child_failed": (se or so)[-400:]}
    return out
