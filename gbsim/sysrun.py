"""Simulated ensemble generation: several live System.generator coroutines (tasks) over one or two
parsed systems share one SimRng; a seeded task scheduler decides who advances, and injects close / throw /
abandon / failing-rng faults.  Every yielded member is audited with the reference model of the component
it was built from; a mass ledger per generator checks where iteration stops.
"""
import gc as _gc
import random
import signal
import traceback

from . import boot, reader
from .genrun import WallTimeout, _alarm
from .model import GenAudit, Template, peq
from .seams import DrawDiverges, World, _heavy_mass
from .simrng import BudgetExceeded, InjectedInterrupt, InjectedRngError, InjectedValueError, Scheduler, SimAbort, SimRng


def system_model(ast_sys, system_molweight=None):
    """Declared composition from the mixture specifiers (README 'System object syntax').
    Returns (fractions list summing to 1, system mass) or (None, None) if under-determined."""
    mols = ast_sys.mols
    n = len(mols)
    pct = [m.mixture[1] if m.mixture and m.mixture[0] == "pct" else None for m in mols]
    ab = [m.mixture[1] if m.mixture and m.mixture[0] == "abs" else None for m in mols]
    known_pct = [p for p in pct if p is not None]
    if len(known_pct) == n - 1:
        rest = 100.0 - sum(known_pct)
        pct = [p if p is not None else rest for p in pct]
    masses = []
    if system_molweight:
        masses.append(float(system_molweight))
    if all(p is not None for p in pct):
        for a, p in zip(ab, pct):
            if a is not None and p:
                masses.append(a / (p / 100.0))
    if all(a is not None for a in ab):
        masses.append(sum(ab))
    if not masses:
        return None, None
    M = masses[0]
    fr = []
    for a, p in zip(ab, pct):
        if p is not None:
            fr.append(p / 100.0)
        elif a is not None:
            fr.append(a / M)
        else:
            return None, None
    return fr, M


class MemberDispatcher:
    """World hook: routes the events of one member generation to a GenAudit of the component in use."""

    def __init__(self, ast_sys, key_of_component, props, fractions):
        self.ast_sys = ast_sys
        self.key_of_component = key_of_component  # token key -> (component idx, residue idx)
        self.props = props
        self.fractions = fractions
        self.reset()
        self.violations = []
        self.pick_vectors = []
        self.members = []

    def reset(self):
        self.audit = None
        self.component = None
        self.first_dec = None
        self.buffer = []

    def __call__(self, ev, live):
        if self.audit is None:
            if ev["k"] == "dec" and not ev.get("in_draw") and self.first_dec is None and ev["kind"] == "choice":
                self.first_dec = ev
                return
            if ev["k"] == "new":
                comp, ridx = self.key_of_component.get(ev["tok"], (None, None))
                if comp is None:
                    self.violations.append({"property": "C13", "invariant": "member_of_unknown_component",
                                            "msg": f"a member was built from token {ev['text']} that belongs to no declared component", "seq": ev["s"]})
                    return
                self.component = comp
                mol_ast = self.ast_sys.mols[comp]
                res = mol_ast.residues()
                self.audit = GenAudit(mol_ast, res, props=self.props, expect_complete=True)
                self.audit._key_shift = self.key_shift(comp)
                for b in self.buffer:
                    self._feed(*b)
                self.buffer = []
                self._feed(ev, live)
                return
            self.buffer.append((ev, live))
            return
        self._feed(ev, live)

    def key_shift(self, comp):
        return min(k for k, (c, r) in self.key_of_component.items() if c == comp)

    def _feed(self, ev, live):
        if ev["k"] == "new" and ev.get("tok") is not None:
            comp, ridx = self.key_of_component.get(ev["tok"], (None, None))
            if comp != self.component:
                self.violations.append({"property": "C13", "invariant": "member_mixes_components",
                                        "msg": f"one member contains tokens of components {self.component} and {comp}", "seq": ev["s"]})
                return
            ev = dict(ev)
            ev["tok"] = ridx
        self.audit(ev, live)


def _illposed_refusal(disp, exc):
    """the member under construction belongs to a component that is not well-posed (its chain can close before a later element)
    and the library refused it with an exception"""
    # (any exception of the library's own error paths counts: a chain end without a fitting end group makes numpy's choice
    # refuse an empty option list with a ValueError)
    if not isinstance(exc, Exception) or disp.component is None or disp.audit is None:
        return False
    from . import wellposed

    try:
        return not wellposed.analyse(disp.ast_sys.mols[disp.component])[0]
    except Exception:
        return False


def scale_masses(text, sysw, scale):
    """multiply every absolute mass specifier (and the system mass argument) by `scale`; percentages stay"""
    import re

    def rep(mm):
        if mm.group(2):
            return mm.group(0)
        x = float(mm.group(1)) * scale
        # (every other scaled mass is written with a signed exponent, a form numbers in a specifier may take)
        return (".|%.12e|" % x) if int(x * 7) % 2 else (".|%r|" % x)

    return re.sub(r"\.\|\s*([0-9.eE+\-]+)\s*(%?)\s*\|", rep, text), (None if sysw is None else sysw * scale)


def _sibling_systems(g, text, sysw, M_sys, viols, stats):
    def v(inv, msg):
        viols.append({"property": "C13", "invariant": inv, "msg": msg, "features": ["sibling_system"]})

    # (a) the same components with every mass 2.5 times as large
    t2, w2 = scale_masses(text, sysw, 2.5)
    try:
        s2 = g.System(t2, w2) if w2 else g.System(t2)
        stats["sibling_systems"] = stats.get("sibling_systems", 0) + 1
        if not s2.generable:
            v("generable_flag", f"System({t2!r}, {w2!r}) built after System({text!r}) is reported not generable")
        elif abs(float(s2.system_mass) - 2.5 * M_sys) > 1e-6 * M_sys:
            v("system_mass_differs_from_specifiers", f"System({t2!r}, {w2!r}) built after a system of mass {M_sys!r} reports system mass {s2.system_mass!r}")
    except SimAbort:
        raise
    except Exception as exc:
        v("workload_rejected_by_parser", f"System({t2!r}, {w2!r}) built after System({text!r}) raised {exc!r}")
    # (b) percentages only and no mass from the caller: under-determined, must refuse
    if sysw is not None and "%" in text:
        try:
            s3 = g.System(text)
            stats["sibling_systems"] = stats.get("sibling_systems", 0) + 1
            if s3.generable:
                v("generable_flag", f"System({text!r}) without a system mass, built after the same text with mass {sysw!r}, is reported generable")
            try:
                next(s3.generator)
                v("non_generable_system_generates", f"System({text!r}) without a system mass yielded a molecule (an earlier system had mass {sysw!r})")
            except StopIteration:
                v("non_generable_system_iterates", f"System({text!r}) without a system mass ended iteration silently")
            except SimAbort:
                raise
            except Exception:
                pass
        except SimAbort:
            raise
        except Exception:
            pass  # rejecting the under-determined text at construction is a refusal too


def rotate_specifiers(text):
    """the same components with the mass / percentage specifiers moved on by one component"""
    import re

    specs = re.findall(r"\.\|[^|]*\|", text)
    if len(specs) < 2 or len(set(specs)) < 2:
        return None
    it = iter(specs[1:] + specs[:1])
    return re.sub(r"\.\|[^|]*\|", lambda m: next(it), text)


def _build_system(g, text, system_molweight):
    return g.System(text, system_molweight) if system_molweight else g.System(text)


def _screen_once(g, alt, system_molweight, seed):
    import numpy as np

    try:
        s = _build_system(g, alt, system_molweight)
        for k in range(2):
            s.generate(rng=np.random.default_rng(seed % 1000 + k))
    except SimAbort:
        raise
    except Exception:
        pass


def run_system(text, ops_seed, sched_kwargs, n_generators=1, faults=None, props=("C13",), system_molweight=None, max_steps=400,
               wall=300, embed="stub", policy_rounds="random", check_generate=True, sibling_systems=False, screen_first=False):
    """Returns dict with violations, stats, digest."""
    g = boot.load()
    faults = list(faults or [])
    try:
        ast = reader.read_system(text).build()
    except Exception as exc:
        return {"harness_error": f"reader failed on {text!r}: {exc!r}", "violations": []}
    fractions, M_sys = system_model(ast, system_molweight)
    sched = Scheduler(**sched_kwargs)
    world = World(sched, embed=embed)
    world.draw_limit = 10 ** 7
    viols = []
    stats = {"runs": 1, "yields": 0, "generator_resumptions": 0, "generator_switches": 0, "generators": 0}
    rnd = random.Random(ops_seed)
    old = signal.signal(signal.SIGALRM, _alarm)
    signal.alarm(wall)
    prop_fget = g.System.generator.fget
    old_defaults = prop_fget.__defaults__
    histories = []
    try:
        with world:
            rng = SimRng(sched)
            prop_fget.__defaults__ = (rng,)
            if screen_first:
                # a formulation screen: another system with the same components and other shares (the specifiers rotated) is
                # built, used once and released right before the audited system is built -- whatever the library remembers
                # about a system by the identity of its parts now refers to a dead object
                alt = rotate_specifiers(text)
                if alt is not None and alt != text:
                    stats["screened_system_first"] = 1
                    _screen_once(g, alt, system_molweight, ops_seed)
                    # (no gc.collect() here: the interpreter's free lists are what lets the next system land on the
                    # addresses of the one just released)
            try:
                system = _build_system(g, text, system_molweight)
            except Exception as exc:
                return {"violations": [{"property": "C13", "invariant": "workload_rejected_by_parser",
                                        "msg": f"System({text!r}) raised {exc!r}", "features": []}], "stats": stats, "digest": world.digest(),
                        "trace": list(sched.trace)}
            residues = system.residues
            ast_res = ast.residues()
            if len(residues) != len(ast_res):
                return {"violations": [{"property": "C13", "invariant": "parse_residue_count",
                                        "msg": f"parser found {len(residues)} tokens, the string has {len(ast_res)}", "features": []}],
                        "stats": stats, "digest": world.digest(), "trace": list(sched.trace)}
            world.register_tokens(residues, list(range(len(residues))))
            key_of_component = {}
            k = 0
            for ci, m in enumerate(ast.mols):
                for ri, t in enumerate(m.residues()):
                    key_of_component[k] = (ci, ri)
                    k += 1
            disp = MemberDispatcher(ast, key_of_component, props, fractions)
            world.hooks.append(disp)
            str0 = str(system)
            generable0 = system.generable
            expect_generable = fractions is not None
            if generable0 != expect_generable:
                viols.append({"property": "C13", "invariant": "generable_flag",
                              "msg": f"System.generable is {generable0}, the specifiers {'determine' if expect_generable else 'do not determine'} the system", "features": []})
            # Exact comparisons use the library's own float for the system mass (the model's value can differ in the last bit,
            # e.g. 500 * 0.24022 vs 120.11, and ties are decided by that bit); the two must agree to 1e-9
            if expect_generable and generable0:
                try:
                    M_lib = float(system.system_mass)
                    if abs(M_lib - M_sys) > 1e-9 * max(1.0, abs(M_sys)):
                        viols.append({"property": "C13", "invariant": "system_mass_differs_from_specifiers",
                                      "msg": f"System.system_mass is {M_lib!r}, the specifiers give {M_sys!r}", "features": []})
                    else:
                        M_sys = M_lib
                except Exception as exc:
                    viols.append({"property": "C13", "invariant": "system_mass_unavailable", "msg": f"System.system_mass raised {exc!r}", "features": []})
            # tasks ---------------------------------------------------------------
            gens = []
            # with several generators, every other one iterates a second System object parsed from the same text: the two objects
            # (and whatever the library shares between them) are used in an interleaved way
            systems = [system]
            if n_generators >= 2 and rnd.random() < 0.5:
                try:
                    system_b = g.System(text, system_molweight) if system_molweight else g.System(text)
                    world.register_tokens(system_b.residues, list(range(len(system_b.residues))))
                    systems.append(system_b)
                    stats["second_system_object"] = 1
                except SimAbort:
                    raise
                except Exception as exc:
                    viols.append({"property": "C13", "invariant": "workload_rejected_by_parser",
                                  "msg": f"parsing System({text!r}) a second time raised {exc!r}", "features": []})

            def new_gen():
                src = systems[len(gens) % len(systems)]
                gens.append({"gen": src.generator, "mass": 0.0, "yields": 0, "done": False, "dead": None, "members": []})
                stats["generators"] += 1
                world.event({"k": "op", "op": "new_generator", "g": len(gens) - 1})

            for _ in range(n_generators):
                new_gen()
            fault_plan = {}
            for f in faults:
                fault_plan.setdefault((f["gen"], f["after_yields"]), []).append(f)
            last = None
            steps = 0
            while steps < max_steps:
                live = [i for i, t in enumerate(gens) if not t["done"]]
                if not live:
                    break
                gi = rnd.choice(live)
                if last is not None and gi != last:
                    stats["generator_switches"] += 1
                last = gi
                t = gens[gi]
                steps += 1
                # faults scheduled for this task at this point
                fl = fault_plan.pop((gi, t["yields"]), [])
                handled = False
                embed_armed = False
                world.embed_fault_at = None
                for f in fl:
                    kind = f["kind"]
                    # close / abandon / throw take effect here; rng and embedding faults are only *armed* here and counted as
                    # fired when they actually land inside the resumption
                    pre = "fault:" if kind in ("gen_close", "gen_abandon", "gen_throw") else "fault_armed:"
                    stats[pre + kind] = stats.get(pre + kind, 0) + 1
                    world.event({"k": "fault", "kind": kind, "g": gi, "after": t["yields"]})
                    if kind == "gen_close":
                        t["gen"].close()
                        t["done"] = True
                        t["dead"] = "closed"
                        try:
                            next(t["gen"])
                            viols.append({"property": "C13", "invariant": "closed_generator_yields", "msg": "a closed generator yielded again", "features": []})
                        except StopIteration:
                            pass
                        handled = True
                    elif kind == "gen_abandon":
                        t["gen"] = None
                        t["done"] = True
                        t["dead"] = "abandoned"
                        _gc.collect()
                        handled = True
                    elif kind == "gen_throw":
                        try:
                            t["gen"].throw(KeyError("injected"))
                            viols.append({"property": "C13", "invariant": "throw_swallowed", "msg": "an exception thrown into the generator was swallowed", "features": []})
                        except KeyError:
                            pass
                        except StopIteration:
                            pass
                        t["done"] = True
                        t["dead"] = "thrown"
                        handled = True
                    elif kind in ("rng_raise", "rng_interrupt", "rng_value"):
                        sched.faults[sched.calls + f.get("offset", 0)] = {"rng_raise": "raise", "rng_interrupt": "interrupt", "rng_value": "value"}[kind]
                    elif kind == "embed_fail":
                        # the embedding of the (offset mod 4)-th residue built inside this resumption yields no conformer
                        world.embed_fault_at = world.embed_calls + f.get("offset", 0) % 4
                        embed_armed = True
                    if handled:
                        world.embed_fault_at = None
                        # a replacement generator must behave like a fresh one
                        if f.get("respawn", True):
                            new_gen()
                        break
                if handled:
                    continue
                # advance the task by one resumption ---------------------------------
                disp.reset()
                stats["generator_resumptions"] += 1
                world.event({"k": "op", "op": "next", "g": gi})
                calls_before = sched.calls
                world.attach_count = 0
                armed = set(sched.faults)
                try:
                    try:
                        member = next(t["gen"])
                    finally:
                        # a fault that did not land inside this resumption is disarmed (faults are placed inside in-flight work)
                        for kf in list(sched.faults):
                            if kf in armed and kf >= calls_before and not any(fi[0] == kf for fi in sched.fired):
                                del sched.faults[kf]
                                stats["fault_not_reached"] = stats.get("fault_not_reached", 0) + 1
                        if world.embed_fault_at is not None:
                            if embed_armed and not any(e["k"] == "fault" and e["kind"] == "embed_fail" for e in world.log[-600:]):
                                stats["fault_not_reached"] = stats.get("fault_not_reached", 0) + 1
                            world.embed_fault_at = None
                        if "calls_first_resumption" not in stats and gi == 0:
                            stats["calls_first_resumption"] = sched.calls - calls_before
                except StopIteration:
                    t["done"] = True
                    world.event({"k": "op", "op": "stop", "g": gi, "mass": t["mass"]})
                    if not expect_generable:
                        viols.append({"property": "C13", "invariant": "non_generable_system_iterates",
                                      "msg": "a system that is not generable ended iteration silently instead of refusing", "features": []})
                    elif t["mass"] < M_sys:
                        viols.append({"property": "C13", "invariant": "stopped_before_system_mass",
                                      "msg": f"iteration stopped at accumulated mass {t['mass']} < system mass {M_sys} after {t['yields']} molecules",
                                      "features": []})
                    continue
                except (InjectedRngError, InjectedInterrupt, InjectedValueError) as exc:
                    t["done"] = True
                    t["dead"] = "rng_fault"
                    fk = "rng_interrupt" if isinstance(exc, InjectedInterrupt) else ("rng_value" if isinstance(exc, InjectedValueError) else "rng_raise")
                    stats["fault:" + fk] = stats.get("fault:" + fk, 0) + 1
                    world.event({"k": "op", "op": "raised", "g": gi, "exc": type(exc).__name__})
                    try:
                        next(t["gen"])
                        viols.append({"property": "C13", "invariant": "failed_generator_yields", "msg": "a generator that raised yielded again", "features": []})
                    except StopIteration:
                        pass
                    except BaseException:
                        pass
                    new_gen()
                    continue
                except (BudgetExceeded, DrawDiverges) as exc:
                    t["done"] = True
                    feats = ["exc=" + type(exc).__name__]
                    fam = [e["text"].split("(")[0].strip("|") for e in world.log if e["k"] == "draw_fail"]
                    if fam:
                        feats += ["draw_fail", "family=" + fam[-1]]
                    viols.append({"property": "C13", "invariant": "member_generation_does_not_terminate",
                                  "msg": f"next() did not return: {exc!r}", "features": feats})
                    continue
                except SimAbort:
                    raise
                except Exception as exc:
                    t["done"] = True
                    world.event({"k": "op", "op": "raised", "g": gi, "exc": type(exc).__name__})
                    if not expect_generable:
                        continue  # refusal
                    if embed_armed and any(e["k"] == "fault" and e["kind"] == "embed_fail" for e in world.log[-600:]):
                        # the injected embedding failure ended this resumption: the faulted call may raise, nothing else
                        world.embed_fault_at = None
                        stats["fault:embed_fail"] = stats.get("fault:embed_fail", 0) + 1
                        t["dead"] = "embed_fault"
                        new_gen()
                        continue
                    if _illposed_refusal(disp, exc):
                        # a component whose chain may close before a later element (chain stopper among the units): the library
                        # refuses such a member with a RuntimeError; that ends this generator, nothing was handed out
                        stats["illposed_member_refused"] = stats.get("illposed_member_refused", 0) + 1
                        t["dead"] = "illposed_refusal"
                        new_gen()
                        continue
                    feats = ["exc=" + type(exc).__name__]
                    if "updating stopped" in str(exc):
                        feats.append("msg=updating stopped")
                    fam = [e["text"].split("(")[0].strip("|") for e in world.log if e["k"] == "draw_fail"]
                    if fam:
                        feats += ["draw_fail", "family=" + fam[-1]]
                    viols.append({"property": "C13", "invariant": "member_generation_raised",
                                  "msg": f"next() raised {exc!r} ({traceback.format_exc()[-300:]})", "features": feats})
                    continue
                world.embed_fault_at = None
                # a member was yielded ---------------------------------------------------
                if not expect_generable:
                    viols.append({"property": "C13", "invariant": "non_generable_system_generates",
                                  "msg": "a system that is not generable yielded a molecule", "features": []})
                    t["done"] = True
                    continue
                stats["yields"] += 1
                t["yields"] += 1
                if t["mass"] >= M_sys:
                    viols.append({"property": "C13", "invariant": "yield_after_system_mass",
                                  "msg": f"a molecule was yielded although the accumulated mass {t['mass']} had reached the system mass {M_sys}",
                                  "features": []})
                try:
                    w = _heavy_mass(member)  # measured on the molecule, not through the accessor
                except Exception as exc:
                    w = float("nan")
                t["mass"] += w
                t["members"].append((disp.component, w))
                disp.members.append((disp.component, w))
                if disp.first_dec is not None:
                    disp.pick_vectors.append((disp.first_dec["p"], disp.first_dec["i"], disp.component, w))
                if not member.fully_generated or len(member.bond_descriptors) != 0:
                    viols.append({"property": "C13", "invariant": "member_not_fully_generated", "msg": "a yielded molecule has open descriptors", "features": []})
                if disp.audit is None:
                    viols.append({"property": "C13", "invariant": "member_without_component", "msg": "a yielded molecule was not built from any declared component", "features": []})
                else:
                    disp.audit.finish(member, None)
                    for v in disp.audit.violations:
                        v2 = dict(v)
                        v2["msg"] = f"member of component {disp.component}: [{v['property']}/{v['invariant']}] {v['msg']}"
                        v2["invariant"] = "member_is_not_an_instance_of_its_component"
                        v2["property"] = "C13"
                        v2["features"] = ["inner=" + v["property"] + "/" + v["invariant"]]
                        viols.append(v2)
                world.event({"k": "op", "op": "yield", "g": gi, "component": disp.component, "w": w, "cum": t["mass"]})
                # the parsed system must be unchanged by anything that happened
            if str(system) != str0 or system.generable != generable0:
                viols.append({"property": "C13", "invariant": "system_changed_by_iteration", "msg": "printing / generability of the system changed", "features": []})
            for i, t in enumerate(gens):
                histories.append({"g": i, "yields": t["yields"], "mass": t["mass"], "dead": t["dead"], "done": t["done"]})
            # single-molecule generation from the system ---------------------------------
            if check_generate and expect_generable:
                disp.reset()
                world.attach_count = 0
                sched.faults.clear()
                try:
                    member = system.generate(rng=rng)
                    if not member.fully_generated or len(member.bond_descriptors) != 0:
                        viols.append({"property": "C13", "invariant": "generate_member_not_fully_generated", "msg": "System.generate returned open descriptors", "features": []})
                    if disp.audit is not None:
                        disp.audit.finish(member, None)
                        for v in disp.audit.violations:
                            viols.append({"property": "C13", "invariant": "member_is_not_an_instance_of_its_component",
                                          "msg": f"System.generate: [{v['property']}/{v['invariant']}] {v['msg']}", "features": ["inner=" + v["property"] + "/" + v["invariant"]]})
                    else:
                        viols.append({"property": "C13", "invariant": "member_without_component", "msg": "System.generate: molecule of no declared component", "features": []})
                except (BudgetExceeded, DrawDiverges) as exc:
                    fam = [e["text"].split("(")[0].strip("|") for e in world.log if e["k"] == "draw_fail"]
                    viols.append({"property": "C13", "invariant": "member_generation_does_not_terminate", "msg": f"System.generate: {exc!r}",
                                  "features": ["exc=" + type(exc).__name__] + (["draw_fail", "family=" + fam[-1]] if fam else [])})
                except SimAbort:
                    raise
                except Exception as exc:
                    feats = ["exc=" + type(exc).__name__]
                    if _illposed_refusal(disp, exc):
                        stats["illposed_member_refused"] = stats.get("illposed_member_refused", 0) + 1
                        feats = None
                    elif "updating stopped" in str(exc):
                        feats.append("msg=updating stopped")
                    fam = [e["text"].split("(")[0].strip("|") for e in world.log if e["k"] == "draw_fail"]
                    if fam and feats is not None:
                        feats += ["draw_fail", "family=" + fam[-1]]
                    if feats is not None:
                        viols.append({"property": "C13", "invariant": "member_generation_raised", "msg": f"System.generate raised {exc!r}", "features": feats})
            # other systems built in the same process from the same component texts: each has the mass and the generability
            # its own specifiers give it, whatever was built before
            if sibling_systems and expect_generable:
                world.hooks.remove(disp)
                try:
                    _sibling_systems(g, text, system_molweight, M_sys, viols, stats)
                finally:
                    world.hooks.append(disp)
            viols.extend(disp.violations)
            picks = disp.pick_vectors
    except WallTimeout:
        return {"harness_error": f"wall-clock watchdog fired on {text}", "violations": []}
    finally:
        prop_fget.__defaults__ = old_defaults
        signal.alarm(0)
        signal.signal(signal.SIGALRM, old)
    return {"violations": viols, "stats": stats, "digest": world.digest(), "trace": list(sched.trace), "histories": histories,
            "fractions": fractions, "system_mass": M_sys, "picks": picks, "members": list(disp.members), "n_events": len(world.log), "ast": ast}
