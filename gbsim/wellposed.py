"""Closability analysis on the AST: a *sufficient* condition for "generation can never get
stuck" (no pick over an empty set, exactly one descriptor handed over between elements).

Conservative on purpose: `analyse` returns (True, []) only when the argument below covers
every reachable state; inputs it cannot prove are excluded from C06's workload (counted),
never reported.

Argument per stochastic object O:
  R  = descriptor kinds (token, ordinal) that can ever be open while O grows: closure of the
       initial kinds under "partner with positive probability -> the partner token's other
       descriptors".
  G  every kind in R has a growth partner (compatible repeat-unit descriptor, or a list whose
     positive entries all point at compatible descriptors).
  P  'propagating' kinds: greatest set of kinds compatible with the inverted right terminal such
     that every positive partner of a P-kind sits on a token with another P-kind descriptor.
     If the initial open descriptor leads into P, one P-kind descriptor is open at all times
     (each consumption of one opens another; capping only happens on copies after reservation),
     so the terminal reservation never fails and exactly one descriptor is handed over.
  C  capping: every kind in R has a compatible end-group descriptor, unless O is linear (every
     token that can appear has exactly two descriptors, one open descriptor at a time) and the
     right terminal reserves it.
"""
from .notation import Desc, Stoch, Tok, compatible


def _partners(stoch, d_eff, include_ends_by_list=True):
    """[(token, ordinal, weight>0?)] growth partners of an open descriptor with effective (type, weight, trans)."""
    out = []
    if d_eff.trans is not None:
        alld = stoch.all_descs()
        if len(d_eff.trans) != len(alld):
            return None  # parser rejects
        for (t, k), w in zip(alld, d_eff.trans):
            if w > 0:
                if not compatible(d_eff, t.descs[k]):
                    return None  # positive weight on an incompatible descriptor: attach raises
                out.append((t, k))
        if not out:
            return None
        return out
    for (t, k) in stoch.rbonds():
        if compatible(d_eff, t.descs[k]):
            out.append((t, k))
    return out


def analyse(mol):
    reasons = []
    elems = mol.elements
    n = len(elems)
    if n == 0:
        return False, ["empty molecule"]
    incoming = None  # list of Desc kinds that may be handed over from the previous element
    for ei, e in enumerate(elems):
        last = ei == n - 1
        if isinstance(e, Tok):
            if ei == 0:
                if n == 1:
                    if e.descs:
                        return False, ["single token with descriptors"]
                    return True, []
                if len(e.descs) != 1:
                    return False, [f"prefix token has {len(e.descs)} descriptors"]
                incoming = [e.descs[0]]
                continue
            # connector / suffix: attaches through a descriptor compatible with every incoming kind
            if not incoming:
                return False, ["token after an element that hands nothing over"]
            for d_in in incoming:
                comp = [k for k, d in enumerate(e.descs) if compatible(d_in, d)]
                if not comp:
                    return False, [f"token {e.name} has no descriptor compatible with {d_in.text()}"]
                ws = [e.descs[k].weight for k in comp]
                picks = comp if all(w == ws[0] for w in ws) else [k for k, w in zip(comp, ws) if w > 0]
                rest_sets = []
                for k in picks:
                    rest = [d for j, d in enumerate(e.descs) if j != k]
                    rest_sets.append(rest)
                for rest in rest_sets:
                    if last and rest:
                        return False, ["suffix keeps an open descriptor"]
                    if not last and len(rest) != 1:
                        return False, [f"connector {e.name} would hand over {len(rest)} descriptors"]
                if not last:
                    kinds = {(r[0].sym, r[0].did, r[0].order) for r in rest_sets}
                    if len(kinds) != 1:
                        return False, ["connector orientation ambiguous"]
            if not last:
                incoming = [rest_sets[0][0]]
            else:
                incoming = []
            continue
        # ---- stochastic object ------------------------------------------------------
        st = e
        if st.left.sym == "":
            if ei != 0:
                return False, ["closed left terminal after another element"]
            if not st.ebonds():
                return False, ["end-group start without end groups"]
            init = []
            ws = [t.descs[k].weight for t, k in st.ebonds()]
            for (t, k), w in zip(st.ebonds(), ws):
                if len(t.descs) != 1:
                    return False, ["end group with several descriptors"]
                if w > 0 or all(x == ws[0] for x in ws):
                    init.append(t.descs[k])
        else:
            if not incoming:
                return False, ["left terminal without prefix"]
            init = []
            for d_in in incoming:
                if (d_in.sym, d_in.did, d_in.order) != (st.left.sym, st.left.did, st.left.order):
                    return False, [f"prefix descriptor {d_in.text()} differs from left terminal {st.left.text()}"]
                init.append(Desc(sym=d_in.sym, did=d_in.did, order=d_in.order, weight=st.left.weight, trans=st.left.trans))
        for t in st.repeats + st.ends:
            for d in t.descs:
                if d.weight < 0:
                    return False, ["negative weight"]

        def closure(skip):
            """kinds that can be open: attaching through (t, k) opens the other descriptors of t.  Kinds in `skip`
            (proved inert) are never consumed, so nothing is opened through them."""
            reach_ = {}
            work = []
            seen = set()
            err = []

            def opened_by(partner_list):
                for (pt, pk) in partner_list:
                    seen.add(id(pt))
                    for jj in range(len(pt.descs)):
                        if jj != pk and (id(pt), jj) not in reach_:
                            reach_[(id(pt), jj)] = (pt, jj)
                            work.append((pt, jj))

            for d0 in init:
                ps = _partners(st, d0)
                if ps is None or not ps:
                    return None, None, f"object {ei}: initial descriptor {d0.text()} has no growth partner"
                opened_by(ps)
            while work:
                t, j = work.pop()
                if t in st.ends:
                    return None, None, "end group with several descriptors"
                if (id(t), j) in skip:
                    continue
                ps = _partners(st, t.descs[j])
                if ps is None or not ps:
                    return None, None, f"object {ei}: descriptor {t.descs[j].text()} of {t.name} has no growth partner"
                opened_by(ps)
            return reach_, seen, None

        def inert_kinds(reach_):
            kinds_ = [(t, j) for (t, j) in reach_.values() if any(t is r for r in st.repeats)]
            Q = {(id(t), j) for (t, j) in kinds_ if t.descs[j].weight > 0}
            changed = True
            while changed:
                changed = False
                for key in list(Q):
                    t, j = reach_[key]
                    for (pt, pk) in _partners(st, t.descs[j]):
                        others = [(id(pt), jj) for jj in range(len(pt.descs)) if jj != pk]
                        if not any(o in Q for o in others):
                            Q.discard(key)
                            changed = True
                            break
            alive = bool(Q)
            for d0 in init:
                for (pt, pk) in _partners(st, d0):
                    others = [(id(pt), jj) for jj in range(len(pt.descs)) if jj != pk]
                    if not any(o in Q for o in others):
                        alive = False
            return {(id(t), j) for (t, j) in kinds_ if t.descs[j].weight == 0} if alive else set()

        # zero-weight kinds are never picked while a positive-weight descriptor is open: Q = positive-weight kinds that
        # regenerate themselves (every partner token carries another Q-kind); if the first step opens one, a positive
        # weight descriptor is open at all times and zero-weight kinds are inert during growth
        reach, tokens_seen, err = closure(set())
        if err:
            return False, [err]
        inert = inert_kinds(reach)
        if inert:
            reach2, seen2, err = closure(inert)
            if err:
                return False, [err]
            inert2 = inert_kinds(reach2)
            if all(k in inert2 for k in inert if k in reach2):
                reach, tokens_seen = reach2, seen2
                inert = {k for k in inert2 if k in reach}
            else:
                inert = set()
        kinds = [(t, j) for (t, j) in reach.values() if any(t is r for r in st.repeats)]

        def cappable(t, j):
            d = t.descs[j]
            return any(compatible(d, te.descs[ke]) for te, ke in st.ebonds())

        if st.right.sym == "":
            if not last:
                return False, ["closed right terminal before another element"]
            for (t, j) in kinds:
                if not cappable(t, j):
                    return False, [f"object {ei}: {t.descs[j].text()} of {t.name} has no compatible end group"]
            incoming = []
            continue
        if last:
            return False, ["open right terminal at the end of the molecule"]
        inv = Desc(sym=st.right.sym, did=st.right.did, order=st.right.order)
        compat_r = {(id(t), j) for (t, j) in kinds if compatible(inv, t.descs[j])}
        # propagating kinds
        P = set(compat_r)
        changed = True
        while changed:
            changed = False
            for key in list(P):
                if key in inert:
                    continue
                t, j = reach[key]
                ps = _partners(st, t.descs[j])
                ok = True
                for (pt, pk) in ps:
                    others = [(id(pt), jj) for jj in range(len(pt.descs)) if jj != pk]
                    if not any(o in P for o in others):
                        ok = False
                        break
                if not ok:
                    P.discard(key)
                    changed = True
        if not P:
            return False, [f"object {ei}: cannot prove that a descriptor for the right terminal stays open"]
        single = True
        for d0 in init:
            for (pt, pk) in _partners(st, d0):
                others = [(id(pt), jj) for jj in range(len(pt.descs)) if jj != pk]
                cnt = sum(1 for o in others if o in P)
                if cnt == 0:
                    return False, [f"object {ei}: first unit may leave no descriptor for the right terminal"]
                if cnt != 1:
                    single = False
        for (t, j) in kinds:
            for (pt, pk) in _partners(st, t.descs[j]):
                others = [(id(pt), jj) for jj in range(len(pt.descs)) if jj != pk]
                cnt = sum(1 for o in others if o in P)
                if (id(t), j) in inert:
                    continue  # never consumed during growth
                if (id(t), j) in P:
                    if cnt != 1:
                        single = False
                elif cnt != 0:
                    single = False
        exempt = P if (single and compat_r == P) else set()
        for (t, j) in kinds:
            if (id(t), j) in exempt:
                continue  # exactly one such descriptor is open at any time and it is the one reserved for the terminal
            if not cappable(t, j):
                return False, [f"object {ei}: {t.descs[j].text()} of {t.name} has no compatible end group"]
        hand = []
        seen_types = set()
        for (t, j) in kinds:
            d = t.descs[j]
            if compatible(inv, d) and d.type() not in seen_types:
                seen_types.add(d.type())
                hand.append(d)
        incoming = hand
    return True, reasons
