"""Import the package under test from the current working tree of the repository."""
import os
import sys
import types
import warnings

REPO = os.environ.get("GBSIM_REPO", "/repo")
_LOADED = None


class HarnessError(Exception):
    """The machinery itself is broken (missing seam, nondeterminism, timeout)."""


def load():
    """Import gbigsmiles from $GBSIM_REPO/src (never from an installed copy)."""
    global _LOADED
    if _LOADED is not None:
        return _LOADED
    src = os.path.join(REPO, "src")
    pkg = os.path.join(src, "gbigsmiles")
    if not os.path.isdir(pkg):
        raise HarnessError(f"no package at {pkg}")
    sys.dont_write_bytecode = True
    if sys.path[0] != src:
        sys.path.insert(0, src)
    if not os.path.exists(os.path.join(pkg, "_version.py")):
        # git-ignored file, absent after a fresh restore
        mod = types.ModuleType("gbigsmiles._version")
        mod.version = "0+gbsim"
        mod.version_tuple = (0, 0, 0)
        mod.__version__ = mod.version
        sys.modules["gbigsmiles._version"] = mod
    warnings.filterwarnings("ignore")
    import gbigsmiles  # noqa

    got = os.path.realpath(os.path.dirname(gbigsmiles.__file__))
    if got != os.path.realpath(pkg):
        raise HarnessError(f"gbigsmiles imported from {got}, expected {pkg}")
    from rdkit import RDLogger

    RDLogger.DisableLog("rdApp.*")
    _LOADED = gbigsmiles
    return gbigsmiles
