"""Independent reader of a restricted G-BigSMILES grammar -> AST (notation.py).

Written from README "Notation of details" only; it never calls gbigsmiles.  It is the
source of the ground truth ("what the text denotes") against which the real parser +
generator are judged.  Restrictions (checked, ValueError otherwise): no nested objects,
every stochastic object carries a distribution, no stereo, descriptors only where the
SMILES rule gives them exactly one neighbour.
"""
import re

from .notation import Desc, Dist, Mol, Stoch, Sys, Tok

DESC_RE = re.compile(r"([=#]?)\[([$<>])\s*(\d*)\s*(?:\|([^|\]]*)\|)?\s*\]")
TERM_RE = re.compile(r"\[\s*([$<>]?)\s*(\d*)\s*(?:\|([^|\]]*)\|)?\s*\]")
DIST_RE = re.compile(r"\|\s*([a-z_]+)\s*\(([^)]*)\)\s*\|")
MIX_RE = re.compile(r"\.\|\s*([0-9.eE+\-]+)\s*(%?)\s*\|")


def _weights(wtext):
    if wtext is None:
        return 1.0, None
    vals = [float(x) for x in wtext.split()]
    if len(vals) == 1:
        return vals[0], None
    return float(sum(vals)), vals


def _mk_desc(order_ch, sym, did, wtext, explicit=True):
    w, tr = _weights(wtext)
    return Desc(sym=sym, did=int(did) if did != "" else "", weight=w, trans=tr,
                order={"": 1, "=": 2, "#": 3}[order_ch], wtext=wtext, explicit=explicit)


def read_token(text):
    text = text.strip()
    descs = []
    out = []
    pos = 0
    for m in DESC_RE.finditer(text):
        out.append(text[pos:m.start()].replace("{", "{{").replace("}", "}}"))
        out.append("{%d}" % len(descs))
        descs.append(_mk_desc(m.group(1), m.group(2), m.group(3), m.group(4)))
        pos = m.end()
    out.append(text[pos:])
    return Tok(template="".join(out), descs=descs, name=text)


def read_terminal(text):
    m = TERM_RE.fullmatch(text.strip())
    if not m:
        raise ValueError(f"bad terminal descriptor {text!r}")
    if m.group(1) == "":
        return Desc(sym="", did="", weight=1.0, trans=None, wtext=None)
    return _mk_desc("", m.group(1), m.group(2), m.group(3))


def read_dist(text):
    m = DIST_RE.fullmatch(text.strip())
    if not m:
        raise ValueError(f"bad distribution {text!r}")
    params = tuple(float(x) for x in m.group(2).split(","))
    return Dist(family=m.group(1), params=params, ptext=m.group(2).strip())


def read_stoch(text):
    text = text.strip()
    close = text.rfind("}")
    body = text[1:close]
    dist = read_dist(text[close + 1:])
    first_end = body.find("]")
    left = read_terminal(body[: first_end + 1])
    last_start = body.rfind("[")
    right = read_terminal(body[last_start:])
    middle = body[first_end + 1: last_start]
    if ";" in middle:
        rep_text, end_text = middle.split(";", 1)
    else:
        rep_text, end_text = middle, ""
    repeats = [read_token(t) for t in rep_text.split(",") if t.strip()]
    ends = [read_token(t) for t in end_text.split(",") if t.strip()]
    return Stoch(left=left, right=right, repeats=repeats, ends=ends, dist=dist)


def _split_elements(text):
    """Split molecule text (without mixture) into plain token texts and stochastic object texts."""
    parts = []
    pos = 0
    while True:
        i = text.find("{", pos)
        if i < 0:
            break
        if text[pos:i].strip():
            parts.append(("tok", text[pos:i].strip()))
        j = text.find("}", i)
        if j < 0:
            raise ValueError("unbalanced {")
        end = j + 1
        m = DIST_RE.match(text, end)
        if not m:
            raise ValueError("stochastic object without distribution (outside the workload grammar)")
        end = m.end()
        parts.append(("sto", text[i:end]))
        pos = end
    if text[pos:].strip():
        parts.append(("tok", text[pos:].strip()))
    return parts


def read_molecule(text):
    text = text.strip()
    raw_text = text
    mixture = None
    mm = MIX_RE.search(text)
    if mm:
        if text[mm.end():].strip():
            raise ValueError("text after mixture specifier")
        val = float(mm.group(1))
        mixture = ("pct", val) if mm.group(2) else ("abs", val)
        text = text[: mm.start()]
    parts = _split_elements(text)
    elements = []
    for kind, t in parts:
        elements.append(read_token(t) if kind == "tok" else read_stoch(t))
    # descriptors the notation implies on prefix / connector / suffix tokens
    n = len(elements)
    for i, e in enumerate(elements):
        if not isinstance(e, Tok):
            continue
        prev = elements[i - 1] if i > 0 else None
        nxt = elements[i + 1] if i + 1 < n else None
        if e.descs:
            continue  # user-written descriptors are kept as they are
        new_descs = []
        tpl = e.template
        if prev is not None:
            src = prev.right if isinstance(prev, Stoch) else prev.descs[-1]
            new_descs.append(Desc(sym=src.sym, did=src.did, weight=1.0, trans=None, order=src.order, wtext=None, explicit=False))
            tpl = "{0}" + tpl
        if nxt is not None:
            if not isinstance(nxt, Stoch):
                raise ValueError("two plain tokens in a row")
            src = nxt.left
            k = len(new_descs)
            new_descs.append(Desc(sym=src.sym, did=src.did, weight=0.0, trans=None, order=src.order, wtext="0", explicit=False))
            tpl = tpl + "{%d}" % k
        e.template = tpl
        e.descs = new_descs
    return Mol(elements=elements, mixture=mixture, raw=raw_text)


def read_system(text):
    text = text.strip()
    mols = []
    pos = 0
    for m in MIX_RE.finditer(text):
        mols.append(read_molecule(text[pos:m.end()]))
        pos = m.end()
    if text[pos:].strip():
        mols.append(read_molecule(text[pos:]))
    return Sys(mols=mols, raw=text)
