"""Structured description (AST) of G-BigSMILES inputs, an independent printer, and the
ground truth of what the printed text denotes.

Ground-truth rule for tokens (SMILES rule): *a bond descriptor behaves like an atom
written at that position*.  The token template with every descriptor replaced by a
mapped dummy atom `[*:k]` is parsed by RDKit (trusted); the neighbour of dummy k is the
attachment atom, the bond to it the prescribed bond order; deleting the dummies leaves
the fragment.  Nothing here calls gbigsmiles.
"""
import math
from dataclasses import dataclass, field
from typing import List, Optional, Union

from rdkit import Chem, RDLogger
from rdkit.Chem import Descriptors as rdDescriptors

RDLogger.DisableLog("rdApp.*")

ORDER_CHARS = {1: "", 2: "=", 3: "#"}
ORDER_BT = {1: "SINGLE", 2: "DOUBLE", 3: "TRIPLE"}


@dataclass
class Desc:
    sym: str  # '$', '<', '>' or '' (empty terminal)
    did: Union[int, str] = ""  # numeric id or ''
    weight: float = 1.0  # scalar weight (sum of trans when trans is given)
    trans: Optional[List[float]] = None
    order: int = 1
    wtext: Optional[str] = None  # printed weight text (without bars); None -> no |..| segment
    explicit: bool = True  # False: inserted automatically by the library (prefix/connector/suffix)

    def type(self):
        return (self.sym, self.did, self.order)

    def text(self, with_prefix=True):
        if self.sym == "":
            return "[]"
        s = "[" + self.sym + str(self.did)
        if self.wtext is not None:
            s += "|" + self.wtext + "|"
        s += "]"
        if with_prefix:
            s = ORDER_CHARS[self.order] + s
        return s


def compatible(a: Desc, b: Desc) -> bool:
    """The model's own statement of the BigSMILES conjugation rule."""
    if a.sym == "" or b.sym == "":
        return False
    if a.did != b.did or a.order != b.order:
        return False
    return (a.sym, b.sym) in (("$", "$"), ("<", ">"), (">", "<"))


def weights_rule(ws):
    """Equal weights (including all zero) mean a uniform pick; else proportional."""
    ws = [float(w) for w in ws]
    if not ws:
        return []
    if all(w == ws[0] for w in ws):
        return [1.0 / len(ws)] * len(ws)
    s = sum(ws)
    return [w / s for w in ws]


@dataclass
class Tok:
    template: str  # SMILES text with {0},{1}.. where descriptors are written
    descs: List[Desc] = field(default_factory=list)
    name: str = ""
    # derived
    frag: object = None
    sites: List[int] = field(default_factory=list)
    frag_smiles: str = ""
    mass: float = 0.0
    hs: List[int] = field(default_factory=list)

    def text(self):
        parts = [d.text() if d.explicit else "" for d in self.descs]
        return self.template.format(*parts)

    def build(self):
        """Compute the ground truth from the template."""
        dummies = self.template.format(*[ORDER_CHARS[d.order] + f"[*:{k + 1}]" for k, d in enumerate(self.descs)])
        mol = Chem.MolFromSmiles(dummies)
        if mol is None:
            raise ValueError(f"template {self.template!r} is not valid SMILES ({dummies})")
        keep = [a.GetIdx() for a in mol.GetAtoms() if a.GetAtomMapNum() == 0]
        newidx = {old: new for new, old in enumerate(keep)}
        sites = [None] * len(self.descs)
        for a in mol.GetAtoms():
            k = a.GetAtomMapNum()
            if k:
                nb = a.GetNeighbors()
                if len(nb) != 1:
                    raise ValueError(f"descriptor {k} of {self.template} touches {len(nb)} atoms")
                b = mol.GetBondBetweenAtoms(a.GetIdx(), nb[0].GetIdx())
                order = {Chem.BondType.SINGLE: 1, Chem.BondType.DOUBLE: 2, Chem.BondType.TRIPLE: 3}[b.GetBondType()]
                if order != self.descs[k - 1].order:
                    raise ValueError("descriptor bond order mismatch in template")
                sites[k - 1] = newidx[nb[0].GetIdx()]
        self.sites = sites
        # hydrogens each atom must carry in a finished molecule: dummies count as real neighbours
        self.hs = [mol.GetAtomWithIdx(i).GetTotalNumHs() for i in keep]
        em = Chem.RWMol(mol)
        for a in sorted([a.GetIdx() for a in mol.GetAtoms() if a.GetAtomMapNum()], reverse=True):
            em.RemoveAtom(a)
        frag = em.GetMol()
        # description of the fragment that does not depend on later sanitisation of the dummy-free mol
        self.atoms = []
        for i in keep:
            a = mol.GetAtomWithIdx(i)
            self.atoms.append((a.GetAtomicNum(), a.GetFormalCharge(), a.GetIsotope(), a.GetIsAromatic()))
        self.bonds = {}
        for b in mol.GetBonds():
            i, j = b.GetBeginAtomIdx(), b.GetEndAtomIdx()
            if i in newidx and j in newidx:
                key = (min(newidx[i], newidx[j]), max(newidx[i], newidx[j]))
                self.bonds[key] = b.GetBondTypeAsDouble()
        # the library's tokenizer counts an explicitly written [H] as an atom of the token while RDKit folds it into its
        # neighbour: if that shifts the index of an attachment atom the token sits in a known-finding region
        self.h_shift = False
        if "[H]" in self.template and len(keep) > 1:
            pp = Chem.SmilesParserParams()
            pp.removeHs = False
            mh = Chem.MolFromSmiles(dummies, pp)
            if mh is not None:
                keep_h = [a.GetIdx() for a in mh.GetAtoms() if a.GetAtomMapNum() == 0]
                newidx_h = {old: new for new, old in enumerate(keep_h)}
                for a in mh.GetAtoms():
                    kk = a.GetAtomMapNum()
                    if kk:
                        nb = a.GetNeighbors()[0].GetIdx()
                        if newidx_h[nb] != sites[kk - 1]:
                            self.h_shift = True
        self.frag = frag
        self.natoms = len(keep)
        self.mass = sum(_heavy_mass(a[0], a[2]) for a in self.atoms)
        return self


_PT = Chem.GetPeriodicTable()


def _heavy_mass(z, iso):
    if z == 1:
        return 0.0
    if iso:
        return _PT.GetMassForIsotope(z, iso)
    return _PT.GetAtomicWeight(z)


@dataclass
class Dist:
    family: str
    params: tuple
    ptext: Optional[str] = None  # printed parameter text, default from params

    def text(self):
        if self.ptext is not None:
            return f"|{self.family}({self.ptext})|"
        return f"|{self.family}({', '.join(_num(p) for p in self.params)})|"


def _num(x):
    if isinstance(x, int):
        return str(x)
    return repr(float(x))


@dataclass
class Stoch:
    left: Desc
    right: Desc
    repeats: List[Tok]
    ends: List[Tok]
    dist: Dist
    sep: str = ", "

    def all_descs(self):
        """(token, ordinal) of every descriptor in notation order: repeat units then end groups."""
        out = []
        for t in self.repeats + self.ends:
            for k in range(len(t.descs)):
                out.append((t, k))
        return out

    def rbonds(self):
        return [(t, k) for t in self.repeats for k in range(len(t.descs))]

    def ebonds(self):
        return [(t, k) for t in self.ends for k in range(len(t.descs))]

    def text(self):
        s = "{" + self.left.text(False)
        s += self.sep.join(t.text() for t in self.repeats)
        if self.ends:
            s += ";" + (" " if self.sep.endswith(" ") else "")
            s += self.sep.join(t.text() for t in self.ends)
        s += self.right.text(False) + "}"
        s += self.dist.text()
        return s


@dataclass
class Mol:
    elements: List[Union[Tok, Stoch]]
    mixture: Optional[tuple] = None  # ('abs', x) | ('pct', x)
    raw: Optional[str] = None  # the text this AST was read from (what the real parser is given)

    def text(self):
        if self.raw is not None:
            return self.raw
        s = "".join(e.text() for e in self.elements)
        if self.mixture is not None:
            kind, x = self.mixture
            s += f".|{_num(x)}|" if kind == "abs" else f".|{_num(x)}%|"
        return s

    def residues(self):
        out = []
        for e in self.elements:
            if isinstance(e, Tok):
                out.append(e)
            else:
                out.extend(e.repeats + e.ends)
        return out

    def build(self):
        for t in self.residues():
            t.build()
        return self

    def element_of(self):
        """id(token) -> (element index, role, k)"""
        m = {}
        for ei, e in enumerate(self.elements):
            if isinstance(e, Tok):
                m[id(e)] = (ei, "tok", 0)
            else:
                for k, t in enumerate(e.repeats):
                    m[id(t)] = (ei, "rep", k)
                for k, t in enumerate(e.ends):
                    m[id(t)] = (ei, "end", k)
        return m


def mirror_ast(mol):
    """What Molecule.gen_mirror() denotes: the same elements as if written in reverse order, every stochastic object with its
    terminal descriptors swapped; tokens, weights, lists and laws untouched (README / docstring of gen_mirror)."""
    els = []
    for e in reversed(mol.elements):
        if isinstance(e, Stoch):
            els.append(Stoch(left=e.right, right=e.left, repeats=e.repeats, ends=e.ends, dist=e.dist, sep=e.sep))
        else:
            els.append(e)
    return Mol(elements=els, mixture=mol.mixture, raw=None)


@dataclass
class Sys:
    mols: List[Mol]
    system_mass: Optional[float] = None  # total mass implied by the specifiers (for the model)
    raw: Optional[str] = None

    def text(self):
        if self.raw is not None:
            return self.raw
        return "".join(m.text() for m in self.mols)

    def residues(self):
        out = []
        for m in self.mols:
            out.extend(m.residues())
        return out

    def build(self):
        for m in self.mols:
            m.build()
        return self


def heavy_mass_of_mol(mol):
    return rdDescriptors.HeavyAtomMolWt(mol)


def isclose(a, b, rel=1e-9, abs_=1e-12):
    return math.isclose(a, b, rel_tol=rel, abs_tol=abs_)
