"""Batch runner: seeded search over many simulated runs, replay files, minimisation,
known findings, evidence.  Property modules (gbsim/props/cXX.py) provide

    LEVEL, RULE, ASSUMPTIONS, TECHNIQUE
    plan(tier) -> number of runs
    spec_from_seed(run_seed, tier) -> JSON-able run spec   (self-contained: replay needs nothing else)
    execute(spec) -> result dict {violations, stats, sig, nontrivial, sample, digest, trace (outcome script)}
    shrink_candidates(spec) -> iterable of smaller specs   (optional)
"""
import concurrent.futures as cf
import faulthandler
import hashlib
import importlib
import json
import multiprocessing as mp
import os
import subprocess
import sys
import time
import traceback

from . import boot

ROOT = os.path.dirname(os.path.dirname(os.path.abspath(__file__)))
EVIDENCE_DIR = os.environ.get("GBSIM_EVIDENCE_DIR", os.path.join(ROOT, "evidence"))
REPLAY_DIR = os.environ.get("GBSIM_REPLAY_DIR", os.path.join(ROOT, "replays"))
KNOWN_FILE = os.path.join(ROOT, "known_findings.json")
MAIN = os.path.join(ROOT, "gbsim_main.py")


def prop_module(pid):
    return importlib.import_module(f"gbsim.props.{pid.lower()}")


def derive_seed(base, pid, idx):
    h = hashlib.sha256(f"{base}:{pid}:{idx}".encode()).digest()
    return int.from_bytes(h[:6], "big")


def jobs():
    return int(os.environ.get("GBSIM_JOBS", str(min(16, os.cpu_count() or 1))))


# ---------------------------------------------------------------------------
RUN_WALL = int(os.environ.get("GBSIM_RUN_WALL", "1000"))  # seconds one isolated run may take before its process is killed


def isolated_execute(mod, spec):
    """Execute one run in a forked child of this (pristine) process and return its result.

    Every run starts from the module state of a process that has imported the library but never executed it: state a run
    leaves behind in the library (module-level caches, class attributes, the global generator) cannot reach the next run,
    so a run's outcome is a function of its spec alone -- which is what makes every violation replay in a fresh interpreter.
    Leaks *inside* one run (between the operations of a history) are what the histories of C10 / C13 / C20 look for."""
    import pickle
    import select
    import signal

    if os.environ.get("GBSIM_NO_ISOLATION"):
        return mod.execute(spec)
    r, w = os.pipe()
    sys.stdout.flush()
    sys.stderr.flush()
    cpid = os.fork()
    if cpid == 0:
        code = 0
        try:
            os.close(r)
            faulthandler.dump_traceback_later(RUN_WALL - 20, exit=False)
            try:
                res = mod.execute(spec)
            except BaseException as exc:  # harness failure, never a verdict
                res = {"harness_error": f"{type(exc).__name__}: {exc}\n{traceback.format_exc()[-1500:]}", "violations": []}
            res.pop("ast", None)
            try:
                data = pickle.dumps(res)
            except Exception:
                data = pickle.dumps(json.loads(json.dumps(res, default=str)))
            off = 0
            while off < len(data):
                off += os.write(w, data[off: off + 65536])
        except BaseException:
            code = 1
        finally:
            os._exit(code)
    os.close(w)
    chunks = []
    deadline = time.time() + RUN_WALL
    timed_out = False
    while True:
        left = deadline - time.time()
        if left <= 0:
            timed_out = True
            break
        ready, _, _ = select.select([r], [], [], min(left, 5.0))
        if not ready:
            continue
        chunk = os.read(r, 1 << 20)
        if not chunk:
            break
        chunks.append(chunk)
    os.close(r)
    if timed_out:
        try:
            os.kill(cpid, signal.SIGKILL)
        except OSError:
            pass
    try:
        os.waitpid(cpid, 0)
    except OSError:
        pass
    if timed_out:
        return {"harness_error": f"run exceeded {RUN_WALL}s wall clock and was killed", "violations": []}
    try:
        return pickle.loads(b"".join(chunks))
    except Exception as exc:
        return {"harness_error": f"run process died without a result ({exc!r})", "violations": []}


def _worker(args):
    pid, run_seed, tier, idx = args
    try:
        mod = prop_module(pid)
        # (a property may reserve the first run indices of a batch for special runs, e.g. one long endurance history)
        spec = mod.spec_for_index(idx, run_seed, tier) if hasattr(mod, "spec_for_index") else mod.spec_from_seed(run_seed, tier)
        res = isolated_execute(mod, spec)
        res["spec"] = spec if (res.get("violations") or res.get("harness_error") or res.get("keep_spec")) else None
        res["idx"] = idx
        res["seed"] = run_seed
        return res
    except BaseException as exc:  # harness failure, never a verdict
        return {"idx": idx, "seed": run_seed, "harness_error": f"{type(exc).__name__}: {exc}\n{traceback.format_exc()[-1500:]}",
                "violations": []}


EARLY_STOP = int(os.environ.get("GBSIM_EARLY_STOP", "12"))  # runs with a new (not known-finding) violation after which the rest of the batch is skipped


def _has_new_violation(pid, res, known):
    return any(match_known(pid, v, known) is None for v in (res or {}).get("violations", []))


def run_pool(tasks, njobs, known=()):
    """Results in task order (deterministic aggregation).  Once EARLY_STOP runs have produced a violation that is not a
    known finding the remaining runs are skipped: the verdict is already 'violated'."""
    results = [None] * len(tasks)
    pid = tasks[0][0] if tasks else None
    bad = 0
    if njobs <= 1:
        for i, t in enumerate(tasks):
            results[i] = _worker(t)
            bad += _has_new_violation(pid, results[i], known)
            if bad >= EARLY_STOP:
                break
        return [r if r is not None else {"skipped": True, "violations": []} for r in results]
    ctx = mp.get_context("fork")
    # safety net only (every run has its own watchdog): generous enough for the slowest property (C19: ~6 s per run) on a loaded machine
    deadline = float(os.environ.get("GBSIM_BATCH_TIMEOUT", str(max(1800.0, 4.0 * len(tasks)))))
    ex = cf.ProcessPoolExecutor(max_workers=njobs, mp_context=ctx)
    try:
        futs = {ex.submit(_worker, t): i for i, t in enumerate(tasks)}
        try:
            for f in cf.as_completed(futs, timeout=deadline):
                i = futs[f]
                try:
                    results[i] = f.result()
                except cf.CancelledError:
                    results[i] = {"skipped": True, "violations": []}
                    continue
                except BaseException as exc:
                    results[i] = {"idx": tasks[i][3], "seed": tasks[i][1], "harness_error": f"worker died: {exc!r}", "violations": []}
                bad += _has_new_violation(pid, results[i], known)
                if bad >= EARLY_STOP:
                    for g in futs:
                        g.cancel()
                    break
            if bad >= EARLY_STOP:
                for f, i in futs.items():
                    if results[i] is None:
                        results[i] = {"skipped": True, "violations": []}
                for proc in list(getattr(ex, "_processes", {}).values()):
                    try:
                        proc.kill()
                    except Exception:
                        pass
        except cf.TimeoutError:
            for f, i in futs.items():
                if results[i] is None:
                    f.cancel()
                    results[i] = {"idx": tasks[i][3], "seed": tasks[i][1], "harness_error": "batch wall timeout", "violations": []}
            for proc in list(getattr(ex, "_processes", {}).values()):
                try:
                    proc.kill()
                except Exception:
                    pass
    finally:
        ex.shutdown(wait=False, cancel_futures=True)
    return results


# ---------------------------------------------------------------------------
def load_known():
    if not os.path.exists(KNOWN_FILE):
        return []
    with open(KNOWN_FILE) as fh:
        data = json.load(fh)
    return [e for e in data.get("findings", []) if e.get("status", "known") == "known"]


def match_known(pid, v, known):
    feats = set(v.get("features", []))
    for e in known:
        if e["property"] != pid:
            continue
        if e.get("invariant") and e["invariant"] != v.get("invariant"):
            continue
        if e.get("invariants") and v.get("invariant") not in e["invariants"]:
            continue
        if not all(r in feats for r in e.get("requires", [])):
            continue
        if e.get("any_of") and not any(r in feats for r in e["any_of"]):
            continue
        return e
    return None


# ---------------------------------------------------------------------------
def replay_in_fresh_process(pid, path, hashseed="0"):
    env = dict(os.environ)
    env["PYTHONHASHSEED"] = hashseed
    env["PYTHONDONTWRITEBYTECODE"] = "1"
    env["GBSIM_NO_REEXEC"] = "1"
    p = subprocess.run([sys.executable, MAIN, pid, "--replay", path, "--json"], capture_output=True, text=True, env=env, timeout=600)
    try:
        last = [l for l in p.stdout.splitlines() if l.startswith("{")][-1]
        return json.loads(last)
    except Exception:
        return {"error": f"exit {p.returncode}: {p.stdout[-300:]} {p.stderr[-300:]}"}


def same_violation(a, b):
    return a["property"] == b["property"] and a["invariant"] == b["invariant"]


def minimise(pid, mod, spec, target, budget_s=45, max_exec=300):
    """Delta-debugging over the run spec: keep 'same property, same invariant'."""
    t0 = time.time()
    best = spec
    n_exec = 0
    if not hasattr(mod, "shrink_candidates"):
        return best, 0
    improved = True
    while improved and time.time() - t0 < budget_s and n_exec < max_exec:
        improved = False
        for cand in mod.shrink_candidates(best):
            if time.time() - t0 > budget_s or n_exec >= max_exec:
                break
            n_exec += 1
            try:
                r = isolated_execute(mod, cand)
            except BaseException:
                continue
            if r.get("harness_error"):
                continue
            if any(same_violation(v, target) for v in r.get("violations", [])):
                # make the replay self-contained: record the outcome script of this execution
                if r.get("trace") is not None and "sched" in cand:
                    cand = json.loads(json.dumps(cand))
                    cand["sched"]["script"] = r["trace"]
                best = cand
                improved = True
                break
    return best, n_exec


def write_replay(pid, spec, violation, extra=None):
    os.makedirs(os.path.join(REPLAY_DIR, pid), exist_ok=True)
    blob = {"property": pid, "invariant": violation["invariant"], "violation": violation, "spec": spec}
    if extra:
        blob.update(extra)
    text = json.dumps(blob, sort_keys=True, indent=1, default=str)
    name = hashlib.sha256(text.encode()).hexdigest()[:16] + ".json"
    path = os.path.join(REPLAY_DIR, pid, name)
    with open(path, "w") as fh:
        fh.write(text)
    return path


# ---------------------------------------------------------------------------
def run_check(pid, tier, base_seed, out=sys.stdout):
    t0 = time.time()
    boot.load()
    mod = prop_module(pid)
    n_runs = mod.plan(tier)
    if os.environ.get("GBSIM_RUNS"):
        n_runs = int(os.environ["GBSIM_RUNS"])
    tasks = [(pid, derive_seed(base_seed, pid, i), tier, i) for i in range(n_runs)]
    print(f"[gbsim] property={pid} tier={tier} VERIF_SEED={base_seed} runs={n_runs} jobs={jobs()} repo={boot.REPO}", file=out, flush=True)
    known = load_known()
    results = run_pool(tasks, jobs(), known)
    wall_runs = time.time() - t0
    # aggregate -----------------------------------------------------------
    stats = {}
    sigs = set()
    sigs_nontrivial = set()
    samples = []
    harness = []
    viols = []
    for r in results:
        if r is None:
            harness.append("missing result")
            continue
        if r.get("skipped"):
            continue
        if r.get("harness_error"):
            harness.append(f"run {r.get('idx')} seed {r.get('seed')}: {r['harness_error']}")
            continue
        for k, v in (r.get("stats") or {}).items():
            if isinstance(v, (int, float)):
                stats[k] = stats.get(k, 0) + v
        sig = r.get("sig")
        if sig is not None:
            sigs.add(sig)
            if r.get("nontrivial"):
                sigs_nontrivial.add(sig)
        if r.get("sample") is not None and len(samples) < 5 and r.get("nontrivial"):
            samples.append(r["sample"])
        for v in r.get("violations", []):
            viols.append((r, v))
    if not samples:
        samples = [r.get("sample") for r in results if r and r.get("sample") is not None][:3]
    exit_code = 0
    reported = []
    known_hits = {}
    new_viols = []
    for r, v in viols:
        e = match_known(pid, v, known)
        if e is not None:
            known_hits.setdefault(e["id"], [e, 0])[1] += 1
        else:
            new_viols.append((r, v))
    for fid, (e, n) in sorted(known_hits.items()):
        print(f"KNOWN-FINDING: property={pid} {e['id']}: {e['what']} (hit {n}x in this run)", file=out)
    inv_count = {}
    for r, v in new_viols:
        inv_count[v["invariant"]] = inv_count.get(v["invariant"], 0) + 1
    if inv_count:
        print("[gbsim] new violations by invariant: " + ", ".join(f"{k} x{n}" for k, n in sorted(inv_count.items())), file=out)
    # report at most a few distinct new violations (by invariant), each minimised and replay-verified
    seen_inv = set()
    for r, v in new_viols:
        key = v["invariant"]
        if key in seen_inv:
            continue
        seen_inv.add(key)
        if len(seen_inv) > 4:
            break
        spec = r.get("resolved_spec") or r["spec"]
        if r.get("trace") is not None and isinstance(spec, dict) and "sched" in spec and not r.get("resolved_spec"):
            spec = json.loads(json.dumps(spec))
            spec["sched"]["script"] = r["trace"]
        small, n_exec = minimise(pid, mod, spec, v)
        path = write_replay(pid, small, v, {"run_seed": r["seed"], "base_seed": base_seed, "minimise_executions": n_exec,
                                            "original_spec": spec if small is not spec else None})
        rep = replay_in_fresh_process(pid, path)
        ok = any(same_violation(x, v) for x in rep.get("violations", []))
        rep2 = replay_in_fresh_process(pid, path, hashseed="4242")
        ok2 = any(same_violation(x, v) for x in rep2.get("violations", []))
        nondet_inv = v["invariant"] in getattr(mod, "NONDETERMINISM_INVARIANTS", ())
        if (ok and ok2 and rep.get("digest") == rep2.get("digest")) or (nondet_inv and (ok or ok2)):
            if nondet_inv:
                print(f"  note: invariant {v['invariant']} is about nondeterminism of the code under test; its replay reproduces the "
                      f"violation but not bit-identically", file=out)
            try:  # record the event-log digest the replay must reproduce
                with open(path) as fh:
                    blob = json.load(fh)
                blob["digest"] = rep.get("digest")
                with open(path, "w") as fh:
                    json.dump(blob, fh, sort_keys=True, indent=1, default=str)
            except Exception:
                pass
            print(f"VIOLATION property={pid} replay={path}", file=out)
            print(f"  invariant={v['invariant']}: {v['msg'][:600]}", file=out)
            reported.append(path)
            exit_code = 1
        else:
            harness.append(f"violation {v['invariant']} did not replay deterministically ({rep.get('error') or rep.get('violations')}) - file {path}")
    if harness:
        for h in harness[:10]:
            print(f"HARNESS-ERROR: {h}", file=out)
        if exit_code == 0:
            exit_code = 2
    wall = time.time() - t0
    evaluations = sum(1 for r in results if r and not r.get("harness_error") and not r.get("skipped"))
    coverage = {
        "evaluations": evaluations,
        "distinct_nontrivial": len(sigs_nontrivial),
        "distinct_schedules": len(sigs),
        "rule": mod.RULE,
        "samples": samples[:5],
        "runs_per_hour": int(evaluations / max(wall_runs, 1e-6) * 3600),
        "simulated_time": "not applicable: the library reads no clock; progress is measured in decision events, attach steps and generator resumptions",
        "counters": {k: stats[k] for k in sorted(stats)},
        "faults_fired": {k[6:]: stats[k] for k in sorted(stats) if k.startswith("fault:")},
        "probes": {k[6:]: stats[k] for k in sorted(stats) if k.startswith("probe:")},
        "components": getattr(mod, "COMPONENTS", {}),
        "known_findings_matched": {fid: n for fid, (e, n) in known_hits.items()},
        "new_violations": len(new_viols),
        "replays": reported,
        "harness_errors": len(harness),
        "jobs": jobs(),
    }
    if hasattr(mod, "extra_coverage"):
        coverage.update(mod.extra_coverage(results))
    ev = {
        "property_id": pid,
        "tier": tier,
        "seed": int(base_seed),
        "level": mod.LEVEL,
        "coverage": coverage,
        "assumptions": mod.ASSUMPTIONS,
        "wall_s": round(wall, 2),
        "violations": len(new_viols),
    }
    os.makedirs(EVIDENCE_DIR, exist_ok=True)
    with open(os.path.join(EVIDENCE_DIR, f"{pid}.json"), "w") as fh:
        json.dump(ev, fh, indent=1, sort_keys=True, default=str)
    print(f"[gbsim] {pid}: {evaluations} runs, {len(sigs_nontrivial)} distinct non-trivial schedules, "
          f"{len(new_viols)} new violations, {sum(n for _, n in known_hits.values())} known-finding hits, "
          f"{len(harness)} harness errors, {wall:.1f}s", file=out)
    return exit_code


def run_replay(pid, path, as_json=False, out=sys.stdout):
    boot.load()
    mod = prop_module(pid)
    with open(path) as fh:
        blob = json.load(fh)
    res = mod.execute(blob["spec"])
    viols = res.get("violations", [])
    if as_json:
        print(json.dumps({"violations": viols, "digest": res.get("digest"), "harness_error": res.get("harness_error")}, default=str), file=out)
    else:
        for v in viols:
            print(f"VIOLATION property={v['property']} replay={path}", file=out)
            print(f"  invariant={v['invariant']}: {v['msg'][:800]}", file=out)
        same = "same execution" if blob.get("digest") == res.get("digest") else "DIFFERENT execution (other tree or nondeterminism)"
        print(f"[gbsim] replay digest {res.get('digest')} (recorded {blob.get('digest')}): {same}", file=out)
    if res.get("harness_error"):
        print(f"HARNESS-ERROR: {res['harness_error']}", file=out)
        return 2
    want = blob.get("invariant")
    return 1 if any(v["invariant"] == want for v in viols) or (viols and want is None) else 0
