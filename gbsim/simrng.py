"""SimRng: the scheduler that *is* the random generator.

A subclass of numpy.random.Generator whose sampling methods are answered by a
seeded Scheduler instead of the bit generator.  The repository (and scipy on its
behalf) only ever calls: choice, uniform, standard_normal, poisson.  Any other
public sampling method is trapped as unmodelled randomness (harness error).
"""
import math
import random

import numpy as np
from scipy import special as _sp
from scipy import stats as _st


class SimAbort(BaseException):
    """Base of control-flow exceptions the simulator raises through library code.

    Derived from BaseException so `except Exception` / `except ValueError`
    handlers in the library cannot swallow them.
    """


class BudgetExceeded(SimAbort):
    pass


class UnmodelledRandomness(SimAbort):
    pass


class InjectedInterrupt(KeyboardInterrupt):
    """rng_interrupt fault (a BaseException like a real Ctrl-C)."""


class InjectedRngError(RuntimeError):
    """rng_raise fault."""


class InjectedValueError(ValueError):
    """rng_value fault: the generator raises the exception type numpy's own argument checks raise (the library has handlers
    for ValueError around its weighted picks, which must pass it on)."""


CHOICE_POLICIES = (
    "faithful",
    "uniform_support",
    "rare",
    "sticky",
    "alternate",
    "first",
    "last",
    "mix",
)
DRAW_POLICIES = ("natural", "tails", "low", "mid", "high")

_TAILS = [1e-9, 1e-7, 1e-5, 1e-4, 1e-3, 1 - 1e-3, 1 - 1e-4, 1 - 1e-5, 1 - 1e-7, 1 - 1e-9]
U_MIN = 1e-12
U_MAX = 1 - 1e-12


class Scheduler:
    """Decides every outcome.  One instance == one repeatable execution."""

    def __init__(
        self,
        seed,
        choice_policy="faithful",
        draw_policy="natural",
        script=None,
        budget=20000,
        faults=None,
        cover=None,
    ):
        self.seed = seed
        self.rand = random.Random(seed)
        self.choice_policy = choice_policy
        self.draw_policy = draw_policy
        self.script = list(script) if script is not None else None
        self.script_pos = 0
        self.script_fallbacks = 0
        self.budget = budget
        self.calls = 0  # all sampling calls (the index faults refer to)
        self.trace = []  # recorded outcomes: int (choice index) or float (quantile)
        self.faults = dict(faults or {})  # call index -> "raise" | "interrupt"
        self.fired = []
        self.prev_index = {}
        self.cover = cover  # dict key -> count shared over a batch (per process)
        self.listener = None  # callable(event dict)
        # context set by the draw seam: (reference quantile fn, cdf fn, cap)
        self.draw_ctx = None
        self.forced_u = None

    # -- bookkeeping -----------------------------------------------------
    def _tick(self, kind):
        idx = self.calls
        self.calls += 1
        if self.calls > self.budget:
            raise BudgetExceeded(f"decision budget {self.budget} exceeded")
        f = self.faults.get(idx)
        if f is not None:
            self.fired.append((idx, f, kind))
            if self.listener:
                self.listener({"k": "fault", "kind": "rng_" + f, "at": idx})
            if f == "raise":
                raise InjectedRngError(f"injected rng failure at call {idx}")
            if f == "interrupt":
                raise InjectedInterrupt(f"injected interrupt at call {idx}")
            if f == "value":
                raise InjectedValueError(f"injected ValueError at call {idx}")
        return idx

    def _next_script(self):
        if self.script is None:
            return None
        if self.script_pos < len(self.script):
            v = self.script[self.script_pos]
            self.script_pos += 1
            return v
        self.script_pos += 1
        self.script_fallbacks += 1
        return "fallback"

    # -- choice ----------------------------------------------------------
    def choose(self, p):
        idx = self._tick("choice")
        n = len(p)
        support = [i for i in range(n) if p[i] > 0]
        if not support:  # numpy would have raised already; defensive
            support = list(range(n))
        s = self._next_script()
        if s is not None:
            if s == "fallback" or not isinstance(s, int) or s < 0 or s >= n or p[s] <= 0:
                if s != "fallback":
                    self.script_fallbacks += 1
                k = support[0]
            else:
                k = s
        else:
            k = self._policy_choice(p, support)
        self.trace.append(int(k))
        self.prev_index[n] = k
        if self.listener:
            self.listener({"k": "dec", "kind": "choice", "n": n, "p": [float(x) for x in p], "i": int(k), "c": idx})
        return k

    def _policy_choice(self, p, support):
        pol = self.choice_policy
        r = self.rand
        if pol == "mix":
            pol = r.choice(("faithful", "uniform_support", "rare", "sticky", "alternate"))
        if pol == "cover" and self.cover is not None:
            n = len(p)
            best = min(support, key=lambda i: (self.cover.get((n, i), 0), r.random()))
            self.cover[(n, best)] = self.cover.get((n, best), 0) + 1
            return best
        if len(support) == 1:
            # still consume one number so that policies stay aligned run to run
            r.random()
            return support[0]
        if pol == "faithful":
            x = r.random() * float(sum(p[i] for i in support))
            acc = 0.0
            for i in support:
                acc += float(p[i])
                if x < acc:
                    return i
            return support[-1]
        if pol == "uniform_support" or pol == "cover":
            return r.choice(support)
        if pol == "rare":
            w = [1.0 / float(p[i]) for i in support]
            x = r.random() * sum(w)
            acc = 0.0
            for i, wi in zip(support, w):
                acc += wi
                if x < acc:
                    return i
            return support[-1]
        if pol == "sticky":
            prev = self.prev_index.get(len(p))
            if prev in support and r.random() < 0.8:
                return prev
            return r.choice(support)
        if pol == "alternate":
            prev = self.prev_index.get(len(p))
            rest = [i for i in support if i != prev]
            r.random()
            return r.choice(rest) if rest else support[0]
        if pol == "first":
            r.random()
            return support[0]
        if pol == "last":
            r.random()
            return support[-1]
        raise ValueError(f"unknown choice policy {pol}")

    # -- real valued primitives ------------------------------------------
    def quantile(self, prim):
        """Return the quantile u in (0,1) that the primitive `prim` will be fed."""
        idx = self._tick(prim)
        s = self._next_script()
        if self.forced_u is not None:
            u = self.forced_u
            # a script entry is still consumed so scripts stay aligned
        elif s is not None:
            if s == "fallback" or not isinstance(s, float):
                if s != "fallback":
                    self.script_fallbacks += 1
                u = 0.5
            else:
                u = s
        else:
            u = self._policy_u()
        u = min(max(float(u), U_MIN), U_MAX)
        self.trace.append(u)
        if self.listener:
            self.listener({"k": "dec", "kind": prim, "u": u, "c": idx})
        return u

    def _policy_u(self):
        pol = self.draw_policy
        r = self.rand
        ctx = self.draw_ctx
        if pol == "natural":
            u = r.random()
        elif pol == "tails":
            u = r.choice(_TAILS) if r.random() < 0.7 else r.random()
        elif pol == "low":
            u = r.random() * 0.15
        elif pol == "mid":
            u = 0.35 + 0.3 * r.random()
        elif pol == "high":
            u = 1 - r.random() * 0.05
        else:
            raise ValueError(f"unknown draw policy {pol}")
        if ctx is not None and ctx.get("u_cap") is not None and u > ctx["u_cap"]:
            # keep the reference quantile below the run's mass budget (a stated bound)
            u = ctx["u_cap"] * r.random()
        return u


def _trap(name):
    def method(self, *a, **k):
        raise UnmodelledRandomness(f"numpy.random.Generator.{name} is not modelled by SimRng")

    method.__name__ = name
    return method


class SimRng(np.random.Generator):
    def __init__(self, sched):
        super().__init__(np.random.PCG64(0))
        self.sched = sched
        self._validator = np.random.Generator(np.random.PCG64(1))

    def __deepcopy__(self, memo):
        # AtomGraph deep-copies itself (and its rng); the copy's rng is never used for
        # draws, and sharing the scheduler keeps every decision in one stream.
        return self

    def __reduce__(self):
        raise UnmodelledRandomness("SimRng must not be pickled")

    # choice ----------------------------------------------------------------
    def choice(self, a, size=None, replace=True, p=None, axis=0, shuffle=True):
        # numpy validates first: the ValueErrors the library catches are the real ones
        self._validator.choice(a, size=size, replace=replace, p=p, axis=axis, shuffle=shuffle)
        if size is not None:
            raise UnmodelledRandomness("choice with size")
        if isinstance(a, (int, np.integer)):
            arr = np.arange(int(a))
        else:
            arr = np.asarray(a)
        n = arr.shape[0]
        if p is None:
            pv = np.full(n, 1.0 / n)
        else:
            pv = np.asarray(p, dtype=float)
        k = self.sched.choose(pv)
        return arr[k]

    # uniform / normal / poisson -------------------------------------------
    def _fill(self, size, one):
        if size is None:
            return one()
        shape = tuple(np.atleast_1d(size).astype(int)) if not isinstance(size, tuple) else size
        n = int(np.prod(shape)) if len(shape) else 1
        vals = [one() for _ in range(n)]
        return np.asarray(vals).reshape(shape)

    def uniform(self, low=0.0, high=1.0, size=None):
        lo = float(np.asarray(low))
        hi = float(np.asarray(high))
        return self._fill(size, lambda: lo + (hi - lo) * self.sched.quantile("uniform"))

    def standard_normal(self, size=None, dtype=np.float64, out=None):
        if out is not None:
            raise UnmodelledRandomness("standard_normal(out=)")
        return self._fill(size, lambda: float(_sp.ndtri(self.sched.quantile("normal"))))

    def poisson(self, lam=1.0, size=None):
        lam_f = float(np.asarray(lam))
        if self.sched.listener:
            self.sched.listener({"k": "poisson_lam", "lam": lam_f})
        r = self._fill(size, lambda: int(_st.poisson.ppf(self.sched.quantile("poisson"), lam_f)))
        return r if size is None else r.astype(np.int64)


    # further primitives a refactoring might reach for: answered by the scheduler as quantile decisions too
    def random(self, size=None, dtype=np.float64, out=None):
        if out is not None:
            raise UnmodelledRandomness("random(out=)")
        return self._fill(size, lambda: self.sched.quantile("random"))

    def integers(self, low, high=None, size=None, dtype=np.int64, endpoint=False):
        if high is None:
            low, high = 0, low
        lo = int(np.asarray(low))
        hi = int(np.asarray(high)) + (1 if endpoint else 0)
        if hi <= lo:
            raise ValueError("low >= high")
        r = self._fill(size, lambda: min(hi - 1, lo + int(self.sched.quantile("integers") * (hi - lo))))
        return r if size is None else np.asarray(r, dtype=dtype)

    def normal(self, loc=0.0, scale=1.0, size=None):
        lo = float(np.asarray(loc))
        sc = float(np.asarray(scale))
        return self._fill(size, lambda: lo + sc * float(_sp.ndtri(self.sched.quantile("normal"))))


# Further scalar laws of numpy's Generator, answered as quantile decisions through scipy's closed-form quantile functions: a
# change that reaches for one of them (a fallback sampler, a 'direct' gamma draw) is then observable and replayable like any
# other draw instead of ending the run as unmodelled randomness.  Vector-valued and combinatorial methods stay trapped.
def _via_ppf(name, make):
    def method(self, *a, size=None, **k):
        dist, discrete = make(*a, **k)
        one = (lambda: int(dist.ppf(self.sched.quantile(name)))) if discrete else (lambda: float(dist.ppf(self.sched.quantile(name))))
        return self._fill(size, one)

    method.__name__ = name
    return method


_PPF_LAWS = {
    "gamma": lambda shape, scale=1.0: (_st.gamma(float(shape), scale=float(scale)), False),
    "standard_gamma": lambda shape, dtype=None, out=None: (_st.gamma(float(shape)), False),
    "exponential": lambda scale=1.0: (_st.expon(scale=float(scale)), False),
    "standard_exponential": lambda dtype=None, method=None, out=None: (_st.expon(), False),
    "lognormal": lambda mean=0.0, sigma=1.0: (_st.lognorm(float(sigma), scale=math.exp(float(mean))), False),
    "beta": lambda a, b: (_st.beta(float(a), float(b)), False),
    "chisquare": lambda df: (_st.chi2(float(df)), False),
    "weibull": lambda a: (_st.weibull_min(float(a)), False),
    "triangular": lambda left, mode, right: (_st.triang((float(mode) - float(left)) / (float(right) - float(left)), loc=float(left), scale=float(right) - float(left)), False),
    "laplace": lambda loc=0.0, scale=1.0: (_st.laplace(float(loc), float(scale)), False),
    "logistic": lambda loc=0.0, scale=1.0: (_st.logistic(float(loc), float(scale)), False),
    "rayleigh": lambda scale=1.0: (_st.rayleigh(scale=float(scale)), False),
    "gumbel": lambda loc=0.0, scale=1.0: (_st.gumbel_r(float(loc), float(scale)), False),
    "pareto": lambda a: (_st.lomax(float(a)), False),
    "standard_t": lambda df: (_st.t(float(df)), False),
    "standard_cauchy": lambda: (_st.cauchy(), False),
    "wald": lambda mean, scale: (_st.invgauss(float(mean) / float(scale), scale=float(scale)), False),
    "geometric": lambda p: (_st.geom(float(p)), True),
    "binomial": lambda n, p: (_st.binom(int(n), float(p)), True),
    "negative_binomial": lambda n, p: (_st.nbinom(float(n), float(p)), True),
}
for _n, _mk in _PPF_LAWS.items():
    setattr(SimRng, _n, _via_ppf(_n, _mk))

_HANDLED = {"choice", "uniform", "standard_normal", "poisson", "bit_generator", "spawn", "random", "integers", "normal"} | set(_PPF_LAWS)
for _name in dir(np.random.Generator):
    if _name.startswith("_") or _name in _HANDLED:
        continue
    if callable(getattr(np.random.Generator, _name)):
        setattr(SimRng, _name, _trap(_name))


def norm_ppf(u):
    return float(_sp.ndtri(u))


def norm_cdf(z):
    return 0.5 * math.erfc(-z / math.sqrt(2.0))
