#!/venv/bin/python
"""Entry point: ./check <ID> [quick|thorough] [--replay FILE] [--json];  ./check selftest"""
import os
import sys


def main():
    if os.environ.get("PYTHONHASHSEED") != "0" and not os.environ.get("GBSIM_NO_REEXEC"):
        env = dict(os.environ)
        env["PYTHONHASHSEED"] = "0"
        env["PYTHONDONTWRITEBYTECODE"] = "1"
        os.execve(sys.executable, [sys.executable] + sys.argv, env)
    sys.path.insert(0, os.path.dirname(os.path.abspath(__file__)))
    args = sys.argv[1:]
    if not args:
        print(__doc__)
        return 2
    from gbsim import runner
    from gbsim.boot import HarnessError

    pid = args[0]
    if pid == "selftest":
        from gbsim import selftest

        return selftest.main(args[1:])
    tier = os.environ.get("VERIF_TIER", "quick")
    replay = None
    as_json = False
    i = 1
    while i < len(args):
        a = args[i]
        if a in ("quick", "thorough"):
            tier = a
        elif a == "--replay":
            replay = args[i + 1]
            i += 1
        elif a == "--json":
            as_json = True
        i += 1
    try:
        if replay:
            return runner.run_replay(pid, replay, as_json)
        seed = int(os.environ.get("VERIF_SEED", "20261002"))
        return runner.run_check(pid, tier, seed)
    except HarnessError as exc:
        print(f"HARNESS-ERROR: {exc}")
        return 2


if __name__ == "__main__":
    sys.exit(main())
