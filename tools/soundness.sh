#!/bin/sh
# tools/soundness.sh : every behaviour-preserving refactor under seeded/benign against every claimed quick check; prints ALARM / quiet
HERE="$(cd "$(dirname "$0")/.." && pwd)"
cd "$HERE"
for R in $(ls seeded/benign); do
  RES=$(tools/try_patch.sh "$HERE/seeded/benign/$R/patch.diff" 0 C04 C05 C06 C07 C08 C09 C10 C11 C13 C14 C16 C18 C19 C20 2>&1)
  if echo "$RES" | grep -q "patch failed"; then echo "SKIPPED $R: patch does not apply to the current tree"; continue; fi
  if echo "$RES" | grep -q "exit=[12]"; then echo "ALARM $R:"; echo "$RES" | grep -E "VIOLATION|invariant=|HARNESS|exit=[12]" | cut -c1-300; else echo "quiet $R"; fi
done
