#!/bin/sh
# tools/try_patch.sh <patch.diff> <runs> <PROP> [PROP...] : run checks against a scratch copy of /repo with the patch applied
P="$1"; RUNS="$2"; shift 2
T=$(mktemp -d /tmp/gbsim-try-XXXXXX)
cp -r /repo/src "$T/src"; rm -rf "$T/src/gbigsmiles/__pycache__"
(cd "$T" && patch -p1 -s < "$P") || { echo "patch failed"; rm -rf "$T"; exit 3; }
for PID in "$@"; do
  GBSIM_REPO="$T" GBSIM_RUNS="$RUNS" GBSIM_EVIDENCE_DIR="$T/ev" GBSIM_REPLAY_DIR="$T/rp" /verif/check "$PID" quick 2>&1 | grep -v conda | grep -E "VIOLATION|invariant=|HARNESS|\[gbsim\] C" | cut -c1-330
  echo "   -> $PID exit=$?"
done
rm -rf "$T"
