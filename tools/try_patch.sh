#!/bin/sh
# tools/try_patch.sh <patch.diff> <runs|0=default> <PROP> [PROP...] : run checks against a scratch copy of /repo with the patch applied
P="$1"; RUNS="$2"; shift 2
HERE="$(cd "$(dirname "$0")/.." && pwd)"
T=$(mktemp -d /tmp/gbsim-try-XXXXXX)
cp -r /repo/src "$T/src"; rm -rf "$T/src/gbigsmiles/__pycache__"
# (older seeded changes were written before later fix: commits touched neighbouring lines: fall back on patch(1) with fuzz)
(cd "$T" && git apply --include='src/*' "$P" 2>/dev/null) || (cd "$T" && patch -p1 -F 3 -s --no-backup-if-mismatch < "$P") || { echo "patch failed"; rm -rf "$T"; exit 3; }
if [ "$RUNS" != "0" ]; then export GBSIM_RUNS="$RUNS"; fi
for PID in "$@"; do
  GBSIM_REPO="$T" GBSIM_EVIDENCE_DIR="$T/ev" GBSIM_REPLAY_DIR="$T/rp" "$HERE/check" "$PID" quick > "$T/out.txt" 2>&1; RC=$?
  grep -v conda "$T/out.txt" | grep -E "VIOLATION|invariant=|HARNESS|\[gbsim\] C" | cut -c1-330
  echo "   -> $PID exit=$RC"
done
rm -rf "$T"
