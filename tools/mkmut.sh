#!/bin/sh
# mkmut.sh <name> <file relative to src/gbigsmiles> <python expr doing replacement: old|||new>  -> /root/work/mut/<name>.diff
NAME="$1"; FILE="$2"
T=$(mktemp -d /tmp/mkmut-XXXXXX)
mkdir -p $T/src && cp -r /repo/src/gbigsmiles $T/src/ && rm -rf $T/src/gbigsmiles/__pycache__
cd $T && git init -q . && git add -A >/dev/null && git -c user.email=a@b -c user.name=a commit -qm base >/dev/null
python3 - "$T/src/gbigsmiles/$FILE" <<PY
import sys
p=sys.argv[1]
s=open(p).read()
old=open('/root/work/mut/old.txt').read()
new=open('/root/work/mut/new.txt').read()
assert s.count(old)==1, s.count(old)
open(p,'w').write(s.replace(old,new))
PY
git diff > /root/work/mut/$NAME.diff
cd /; rm -rf $T
wc -l /root/work/mut/$NAME.diff
