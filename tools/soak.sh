#!/bin/sh
# tools/soak.sh <first seed> <last seed> [tier] : every claimed quick (or thorough) check under a range of VERIF_SEED values; prints one line per non-zero exit
HERE="$(cd "$(dirname "$0")/.." && pwd)"
T=${3:-quick}
mkdir -p "$HERE/scratch/soak"
for S in $(seq "$1" "$2"); do
  for P in C04 C05 C06 C07 C08 C09 C10 C11 C13 C14 C16 C18 C19 C20; do
    VERIF_SEED=$S GBSIM_EVIDENCE_DIR="$HERE/scratch/soak/ev" GBSIM_REPLAY_DIR="$HERE/scratch/soak/replays" "$HERE/check" $P $T > "$HERE/scratch/soak/$P.$S.log" 2>&1
    RC=$?
    if [ $RC -ne 0 ]; then echo "SOAK seed=$S $P exit=$RC"; grep -E "VIOLATION|invariant=|HARNESS" "$HERE/scratch/soak/$P.$S.log" | cut -c1-400; else rm -f "$HERE/scratch/soak/$P.$S.log"; fi
  done
  echo "SOAK seed=$S done"
done
