#!/bin/sh
# tools/confirm_seed.sh <worktree> <seed id> : confirm a sub-agent's change in its scratch worktree (demo passes on the clean tree,
# fails with the patch, test suite green with the patch) and store patch.diff / demo.py / notes.md under /verif/seeded/<id>/
# (no `git stash`: the stash is shared by all worktrees of a repository)
W="$1"; ID="$2"
D=/verif/seeded/$ID
mkdir -p "$D"
cd "$W" || exit 3
cp seed_out/patch.diff "$D/patch.diff"
cp seed_out/demo.py "$D/demo.py"; cp seed_out/notes.md "$D/notes.md" 2>/dev/null
git checkout -q -- src
PYTHONPATH="$W/src" timeout 900 /venv/bin/python seed_out/demo.py > "$D/.demo_clean.txt" 2>&1; C=$?
git apply "$D/patch.diff" || { echo "$ID patch does not apply"; exit 3; }
PYTHONPATH="$W/src" timeout 900 /venv/bin/python seed_out/demo.py > "$D/.demo_patched.txt" 2>&1; P=$?
echo "$ID demo_clean_exit=$C demo_patched_exit=$P"
PYTHONPATH="$W/src" timeout 3000 /venv/bin/python -m pytest -q -p no:cacheprovider --timeout=900 tests 2>&1 | grep -v conda | tail -4 > "$D/.pytest.txt"
echo "$ID pytest: $(grep -E 'passed|failed' $D/.pytest.txt | tail -1) failed: $(grep FAILED $D/.pytest.txt | tr '\n' ' ')"
