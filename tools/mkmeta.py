#!/usr/bin/env python3
"""tools/mkmeta.py <seed id> <property> <confirm log> <change> <needs> <detected_by> [author] : write /verif/seeded/<id>/meta.json"""
import json
import os
import sys

sid, prop, log, change, needs, det = sys.argv[1:7]
author = sys.argv[7] if len(sys.argv) > 7 else "fresh sub-agent (round 4: property text only, plus a one-line list of ideas already used)"
result = " ".join(l.strip() for l in open(log) if l.strip()) if os.path.exists(log) else "not run"
d = "/verif/seeded/" + sid
meta = {
    "id": sid, "breaks_property": prop, "change": change, "needs_to_manifest": needs, "author": author,
    "confirmed": {"how": "scratch worktree of /repo HEAD (tools/confirm_seed.sh): demo.py on the clean tree (git checkout -- src), demo.py with the patch, full pytest suite with the patch",
                  "result": result},
    "detected_by": det, "how_to_rerun": f"tools/try_patch.sh /verif/seeded/{sid}/patch.diff 0 <PROPERTY>",
}
for f in (".demo_clean.txt", ".demo_patched.txt", ".pytest.txt"):
    try:
        os.remove(os.path.join(d, f))
    except OSError:
        pass
json.dump(meta, open(os.path.join(d, "meta.json"), "w"), indent=1)
print("wrote", d)
