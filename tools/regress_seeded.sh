#!/bin/sh
# tools/regress_seeded.sh [ids...] : every seeded change under /verif/seeded against the checks its meta.json names (detected_by);
# prints CAUGHT / MISSED per change.  Benign refactors (seeded/benign/*) must leave all checks quiet.
HERE="$(cd "$(dirname "$0")/.." && pwd)"
cd "$HERE"
IDS="$@"
[ -z "$IDS" ] && IDS=$(ls seeded | grep '^S-')
for ID in $IDS; do
  PROPS=$(python3 -c "
import json,re,sys
m=json.load(open('seeded/$ID/meta.json'))
ps=re.findall(r'C\d\d', m.get('detected_by',''))
out=[]
for p in ps:
    if p not in out: out.append(p)
print(' '.join(out[:3]) or m['breaks_property'])")
  RES=$(tools/try_patch.sh "$HERE/seeded/$ID/patch.diff" 0 $PROPS 2>&1 | grep -- "-> C" | tr '\n' ' ')
  if echo "$RES" | grep -q "exit=1"; then echo "CAUGHT $ID: $RES"; else echo "MISSED $ID: $RES"; fi
done
