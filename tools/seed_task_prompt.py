import sys
P, used, extra = sys.argv[1], sys.argv[2], (sys.argv[3] if len(sys.argv) > 3 else "")
import os
ROUND = os.environ.get("SEED_ROUND", "r5")
STEER = os.environ.get("SEED_STEER", "")
D = f"/tmp/wt/{ROUND}-{P}"
print(f"""You are working in a scratch git worktree of the Python library G-BigSMILES (a polymer line notation with a stochastic molecule generator built on RDKit) at {D} . Source is in {D}/src/gbigsmiles, tests in {D}/tests, docs in README.md and SI.md. There is no network. Work ONLY inside {D} (do not read or touch /verif or /repo, and do not look elsewhere on the machine for hints).

IMPORTANT environment details:
 * The machine has an editable install of gbigsmiles pointing to another directory. Always run Python as
       cd {D} && PYTHONPATH={D}/src /venv/bin/python ...
   so that YOUR worktree's code is what gets imported; verify once with `-c 'import gbigsmiles; print(gbigsmiles.__file__)'` (must print a path under {D}).
 * NEVER use `git stash` (the stash is shared with other worktrees of the same repository and other people are working in those). To get the clean tree temporarily use `git diff -- src > seed_out/patch.diff && git apply -R seed_out/patch.diff`, and `git apply seed_out/patch.diff` to put your change back.

The property text is in {D}/seed_out/PROPERTY.txt — read it first. It is a semantic property users of the library rely on. {extra}

YOUR TASK: write a realistic change to the library source under src/gbigsmiles (the kind of bug a maintainer could plausibly introduce during a refactor, optimisation, clean-up or small feature edit) that BREAKS this property, such that
 (a) the code still imports and runs;
 (b) the existing test suite still passes with the change: `cd {D} && PYTHONPATH={D}/src /venv/bin/python -m pytest -q -p no:cacheprovider --timeout=900 tests` (takes 6-12 minutes; on the CLEAN tree tests/test_distribution.py::test_flory_schulz always fails and ::test_schulz_zimm is flaky — ignore those two, everything else must pass);
 (c) the breakage needs something SPECIFIC to manifest — {STEER or "e.g. a particular sequence of random choices, a multi-step sequence of operations/calls on the same or different objects, an unusual-but-valid input shape or parameter region or way of writing the input, an exception/fault at a particular point followed by further use, or two cooperating edit sites that each look fine alone."} It must NOT be something ordinary use (generating a typical README example once) would expose at once. Subtle and plausible beats blatant. Keep it small (roughly 1-15 changed lines).
Ideas that have ALREADY been used for this property — pick something genuinely different (a different mechanism AND a different trigger): {used}

DELIVERABLES, all in {D}/seed_out/ :
 - patch.diff : output of `git diff -- src` with your change (the worktree must be left with the change applied);
 - demo.py : a small deterministic program (seeded numpy generators, no wall-clock dependence, runs in under ~2 minutes), run as `cd {D} && PYTHONPATH={D}/src /venv/bin/python seed_out/demo.py`, that exits 0 on the clean tree and exits 1 (printing what went wrong) with your change applied — it must demonstrate the violation of THIS property, judged against the property statement (not merely "output differs from before");
 - notes.md : what the change is, which clause of the property it breaks, and exactly what is needed for it to manifest.
VERIFY YOURSELF before reporting: (1) demo exits 0 on the clean tree (git apply -R, see above), (2) demo exits 1 with the change re-applied, (3) the full test suite passes with the change (modulo the two tests named above) — wait for it to finish before you report. Report a short summary: the idea, files touched, what is needed to manifest, and the three verification results.""")
