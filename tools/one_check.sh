#!/bin/sh
# tools/one_check.sh <property> <tier> <VERIF_SEED> : one check under a given seed, evidence / replays into scratch
HERE="$(cd "$(dirname "$0")/.." && pwd)"
mkdir -p "$HERE/scratch/one"
VERIF_SEED=$3 GBSIM_EVIDENCE_DIR="$HERE/scratch/one/ev" GBSIM_REPLAY_DIR="$HERE/scratch/one/replays" "$HERE/check" $1 $2 2>&1 | grep -E "VIOLATION|invariant=|HARNESS|\[gbsim\] C" | cut -c1-400
echo "exit-of-check: done"
