#!/usr/bin/env python3
"""python3-vt tools_validate.py : validate MANIFEST.json and evidence/*.json against the schemas."""
import glob
import json
import sys

import jsonschema

m = json.load(open("/verif/MANIFEST.json"))
jsonschema.validate(m, json.load(open("/root/.vp/MANIFEST.schema.json")))
props = [json.loads(l)["id"] for l in open("/verif/properties.jsonl")]
claimed = [c["property_id"] for c in m["checks"]]
na = [c["property_id"] for c in m.get("not_applicable", [])]
assert sorted(claimed + na) == sorted(props), (sorted(set(props) - set(claimed + na)), [p for p in claimed if p in na])
es = json.load(open("/root/.vp/EVIDENCE.schema.json"))
for f in sorted(glob.glob("/verif/evidence/*.json")):
    jsonschema.validate(json.load(open(f)), es)
    print("ok", f)
print("manifest ok:", len(claimed), "claimed,", len(na), "not applicable")
